use spl_frontend::{AnalyzedSource, ErrorContainer};
#[test]
fn update_without_changes_keeps_the_diagnostics() {
    let src = AnalyzedSource::new("proc main() {\n    x := 1;\n}\n".to_string());
    let before = src.errors();
    assert_eq!(before.len(), 1, "{before:?}");
    let after = src.update(vec![]).errors();
    assert_eq!(after, before);
}
