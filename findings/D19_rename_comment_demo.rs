// Demonstration of D19 (place as lsp4spl/src/features/tests/d19_demo.rs, add `mod d19_demo;` to tests/mod.rs,
// run `cargo test --offline -p lsp4spl d19_demo`). Fails before the fix, passes from it on.
use super::*;
use crate::features::references;
use lsp_types::{
    PartialResultParams, Range, ReferenceContext, ReferenceParams, RenameParams, TextDocumentIdentifier,
    TextDocumentPositionParams, WorkDoneProgressParams,
};

const PROGRAM: &str = "proc main() {\n    var x: int;\n    // set x\n    x := 1;\n    // print it\n    printi(x);\n}\n";

#[tokio::test]
async fn rename_edits_cover_only_the_identifier() {
    let uri = Url::parse("file:///test.spl").unwrap();
    let params = RenameParams {
        text_document_position: TextDocumentPositionParams { text_document: TextDocumentIdentifier::new(uri.clone()), position: pos(1, 8) },
        new_name: "y".to_string(),
        work_done_progress_params: WorkDoneProgressParams::default(),
    };
    let result = test_feature(references::rename, uri, PROGRAM, params).await.unwrap().unwrap();
    let mut ranges: Vec<(Position, Position)> = result.changes.unwrap().values().flat_map(|e| e.iter().map(|e| { let Range { start, end } = e.range; (start, end) }).collect::<Vec<_>>()).collect();
    ranges.sort_by_key(|r| (r.0.line, r.0.character));
    assert_eq!(ranges, vec![(pos(1, 8), pos(1, 9)), (pos(3, 4), pos(3, 5)), (pos(5, 11), pos(5, 12))]);
}
#[tokio::test]
async fn references_are_the_identifiers_themselves() {
    let uri = Url::parse("file:///test.spl").unwrap();
    let params = ReferenceParams {
        text_document_position: TextDocumentPositionParams { text_document: TextDocumentIdentifier::new(uri.clone()), position: pos(1, 8) },
        work_done_progress_params: WorkDoneProgressParams::default(),
        partial_result_params: PartialResultParams::default(),
        context: ReferenceContext { include_declaration: false },
    };
    let result = test_feature(references::find, uri, PROGRAM, params).await.unwrap().unwrap();
    let mut ranges: Vec<(Position, Position)> = result.iter().map(|l| (l.range.start, l.range.end)).collect();
    ranges.sort_by_key(|r| (r.0.line, r.0.character));
    assert_eq!(ranges, vec![(pos(3, 4), pos(3, 5)), (pos(5, 11), pos(5, 12))]);
}
