// Demonstration of D13 against the real code (place as spl_frontend/tests/d13.rs, run `cargo test --offline -p spl_frontend --test d13`).
// On /repo 4d6462e (before fix a509ce0) all four tests fail; from a509ce0 on they pass.
use spl_frontend::{lexer, TextChange};
fn check(old: &str, range: std::ops::Range<usize>, text: &str) {
    let mut new = old.to_string();
    new.replace_range(range.clone(), text);
    let tokens = lexer::lex(old);
    let (inc, _) = lexer::update(&new, tokens, &TextChange { range, text: text.to_string() });
    assert_eq!(inc, lexer::lex(&new), "old={old:?} new={new:?}");
}
#[test] fn newline_after_unterminated_comment() { check("//a", 3..3, "\n"); }
#[test] fn newline_directly_after_slashes() { check("//", 2..2, "\n"); }
#[test] fn newline_far_behind() { check("x // a b c", 10..10, "\n"); }
#[test] fn newline_in_middle() { check("x // a b c", 8..8, "\n"); }
