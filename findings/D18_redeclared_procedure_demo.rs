// Demonstration of D18 (place as spl_frontend/tests/redecl.rs; `cargo test --offline -p spl_frontend --test redecl`). Fails on /repo ed1509e (two diagnostics), passes from the fix on.
use spl_frontend::{AnalyzedSource, ErrorContainer};
#[test]
fn redeclared_procedure_body() {
    let text = "proc f() {\n    var a: int;\n    a := 1;\n}\nproc f() {\n    var b: int;\n    b := 1;\n}\nproc main() {}\n";
    let src = AnalyzedSource::new(text.to_string());
    let errs = src.errors();
    for e in &errs { println!("{:?} {}", e.0, e.1); }
    assert_eq!(errs.len(), 1, "{errs:?}");
}
