// Demonstration of D17 (place as lsp4spl/src/features/tests/d17_demo.rs, add `mod d17_demo;` to tests/mod.rs,
// run `cargo test --offline -p lsp4spl d17_demo`). Fails on /repo 5f0b6eb, passes from the fix on.
use super::*;
use crate::features::goto;
use lsp_types::{
    request::GotoTypeDefinitionParams, GotoDefinitionParams, Location, PartialResultParams, Position, Range,
    TextDocumentIdentifier, TextDocumentPositionParams, Url, WorkDoneProgressParams,
};
fn params(uri: Url, pos: Position) -> GotoDefinitionParams {
    GotoDefinitionParams {
        text_document_position_params: TextDocumentPositionParams { text_document: TextDocumentIdentifier::new(uri), position: pos },
        work_done_progress_params: WorkDoneProgressParams::default(),
        partial_result_params: PartialResultParams::default(),
    }
}
fn map(l: Option<Location>) -> Option<(Position, Position)> {
    let Location { range: Range { start, end }, .. } = l?;
    Some((start, end))
}
// a variable of an anonymous array type that is called like an unrelated global type: no location
#[tokio::test]
async fn anonymous_array_variable_named_like_a_type() {
    let uri = Url::parse("file:///test.spl").unwrap();
    let text = "type a = array [2] of int;\nproc main() {\n    var a: array [3] of int;\n    a[0] := 1;\n}\n";
    let p: GotoTypeDefinitionParams = params(uri.clone(), pos(3, 4));
    let r = test_feature(goto::type_definition, uri, text, p).await.unwrap();
    assert_eq!(map(r), None);
}
// control: a variable of the named type, called like the type: the type declaration
#[tokio::test]
async fn variable_of_the_named_type_named_like_it() {
    let uri = Url::parse("file:///test.spl").unwrap();
    let text = "type a = array [2] of int;\nproc main() {\n    var a: a;\n    a[0] := 1;\n}\n";
    let p: GotoTypeDefinitionParams = params(uri.clone(), pos(3, 4));
    let r = test_feature(goto::type_definition, uri, text, p).await.unwrap();
    assert_eq!(map(r), Some((pos(0, 5), pos(0, 6))));
}
