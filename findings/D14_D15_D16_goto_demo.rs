// Demonstration of D14, D15, D16 against the real code (place as lsp4spl/src/features/tests/goto_demo.rs, add `mod goto_demo;`
// to lsp4spl/src/features/tests/mod.rs, run `cargo test --offline -p lsp4spl goto_demo`).
// On /repo a509ce0 (before the three fix commits) all five tests fail; from 5f0b6eb on all five pass.
use super::*;
use crate::features::goto;
use lsp_types::{
    request::{GotoImplementationParams, GotoTypeDefinitionParams},
    GotoDefinitionParams, Location, PartialResultParams, Position, Range, TextDocumentIdentifier,
    TextDocumentPositionParams, Url, WorkDoneProgressParams,
};

fn params(uri: Url, pos: Position) -> GotoDefinitionParams {
    GotoDefinitionParams {
        text_document_position_params: TextDocumentPositionParams {
            text_document: TextDocumentIdentifier::new(uri),
            position: pos,
        },
        work_done_progress_params: WorkDoneProgressParams::default(),
        partial_result_params: PartialResultParams::default(),
    }
}
fn map(l: Option<Location>) -> Option<(Position, Position)> {
    let Location { range: Range { start, end }, .. } = l?;
    Some((start, end))
}

// D14: cursor on `a` inside the declaration of `bcd`: the answer must be the `a` of the first declaration (was: `bcd`, 1:5-1:8)
#[tokio::test]
async fn d14_type_used_in_another_type_declaration() {
    let uri = Url::parse("file:///test.spl").unwrap();
    let text = "type a = int;\ntype bcd = a;\n";
    let r = test_feature(goto::declaration, uri.clone(), text, params(uri, pos(1, 11))).await.unwrap();
    assert_eq!(map(r), Some((pos(0, 5), pos(0, 6))));
}
// D15: go-to-implementation on a call of another procedure (was: `second`, 1:5-1:11)
#[tokio::test]
async fn d15_implementation_of_another_procedure() {
    let uri = Url::parse("file:///test.spl").unwrap();
    let text = "proc first() {}\nproc second() {\n    first();\n}\n";
    let p: GotoImplementationParams = params(uri.clone(), pos(2, 5));
    let r = test_feature(goto::implementation, uri, text, p).await.unwrap();
    assert_eq!(map(r), Some((pos(0, 5), pos(0, 10))));
}
// D15: go-to-implementation on a predefined procedure: no location (was: 0:4-0:4)
#[tokio::test]
async fn d15_implementation_of_predefined_procedure() {
    let uri = Url::parse("file:///test.spl").unwrap();
    let text = "proc main() {\n    printi(1);\n}\n";
    let p: GotoImplementationParams = params(uri.clone(), pos(1, 6));
    let r = test_feature(goto::implementation, uri, text, p).await.unwrap();
    assert_eq!(map(r), None);
}
// D16: go-to-type-definition on a variable of an anonymous array type: no location, never an error (was: panic "Invalid creator")
#[tokio::test]
async fn d16_type_definition_of_anonymous_array_variable() {
    let uri = Url::parse("file:///test.spl").unwrap();
    let text = "proc main() {\n    var x: array [3] of int;\n    x[0] := 1;\n}\n";
    let p: GotoTypeDefinitionParams = params(uri.clone(), pos(2, 4));
    let r = test_feature(goto::type_definition, uri, text, p).await.unwrap();
    assert_eq!(map(r), None);
}
// D16: a variable that is called `int` and has an anonymous array type (was: index out of bounds in ast.rs:64)
#[tokio::test]
async fn d16_type_definition_of_array_variable_named_int() {
    let uri = Url::parse("file:///test.spl").unwrap();
    let text = "proc main() {\n    var int: array [3] of int;\n    int[0] := 1;\n}\n";
    let p: GotoTypeDefinitionParams = params(uri.clone(), pos(2, 5));
    let r = test_feature(goto::type_definition, uri, text, p).await.unwrap();
    assert_eq!(map(r), None);
}
