// Demonstration of D21 (place as spl_frontend/tests/d21.rs; `cargo test --offline -p spl_frontend --test d21`). The first test fails before the fix.
use spl_frontend::{AnalyzedSource, ErrorContainer};
fn errors(text: &str) -> Vec<String> { AnalyzedSource::new(text.to_string()).errors().iter().map(|e| e.1.to_string()).collect() }
#[test]
fn sign_in_front_of_a_comparison_is_reported() {
    let e = errors("proc main() {\n    var i: int;\n    i := 0;\n    while (-(i < 2)) {\n        i := i + 1;\n    }\n}\n");
    assert!(!e.is_empty(), "an arithmetic operator applied to a boolean must be reported");
}
#[test]
fn sign_in_front_of_an_integer_is_fine() {
    let e = errors("proc main() {\n    var i: int;\n    i := -1;\n    i := -(i + 2);\n    i := - -i;\n}\n");
    assert!(e.is_empty(), "{e:?}");
}
#[test]
fn sign_in_front_of_an_undefined_variable_reports_only_that() {
    let e = errors("proc main() {\n    var i: int;\n    i := -x;\n}\n");
    assert_eq!(e.len(), 1, "{e:?}");
}
