// Kani unit `windowpair` — counterexample finder for the scalar obligations of the Verus unit `window` (C07) and `misc` (C02).
// Verus gives no counterexample; when one of those obligations fails, the paired loop-free harness below is run on the same
// extracted functions to obtain a concrete input, which is then replayed natively.  On the unchanged tree the harnesses are
// also run in the thorough tier: loop-free over full-domain inputs, i.e. complete (not bounded).
#![allow(dead_code)]
use std::ops::Range;
//@include types_error.rs
//@include types_tokens.rs
pub trait ToRange { fn to_range(&self) -> Range<usize>; }
pub trait Shiftable { fn shift(self, offset: usize) -> Self; }
pub trait ErrorContainer { fn errors(&self) -> Vec<SplError>; }
//@extract spl_frontend/src/tokens.rs :: impl TokenType :: fn look_ahead
//@end
//@extract spl_frontend/src/tokens.rs :: impl Token :: fn is_affected_by
//@end
//@extract spl_frontend/src/tokens.rs :: impl TokenChange :: fn new
//@end
//@extract spl_frontend/src/tokens.rs :: impl TokenChange :: fn deletes
//@end
//@extract spl_frontend/src/tokens.rs :: impl TokenChange :: fn overlaps
//@end
//@extract spl_frontend/src/tokens.rs :: impl TokenChange :: fn out_of_range
//@end
//@extract spl_frontend/src/tokens.rs :: impl TokenChange :: fn new_token_pos
//@end
//@extract spl_frontend/src/parser/utility.rs :: fn affected :: fn is_partially_consumed
//@end
//@extract spl_frontend/src/parser/utility.rs :: fn affected :: fn is_insertion_here
//@end
//@extract lsp4spl/src/features/completion.rs :: fn correct_index
//@end

#[cfg(kani)]
mod harness {
    use super::*;

    fn needed_la(t: &TokenType) -> usize {
        use TokenType::*;
        match t {
            If | Else | While | Array | Of | Proc | Ref | Type | Var | Ident(_) | Int(_) | Hex(_) | Char(_) | Colon | Lt | Gt | Divide | Comment(_) => 1,
            Unknown(s) => if s == "'" { 1 } else { 0 },
            _ => 0,
        }
    }
    /// every kind; payloads are fixed (the functions under check never look at them, except Unknown("'"))
    fn kind(k: u8) -> TokenType {
        use TokenType::*;
        match k {
            0 => LParen, 1 => RParen, 2 => LBracket, 3 => RBracket, 4 => LCurly, 5 => RCurly, 6 => Eq, 7 => Neq, 8 => Lt, 9 => Le,
            10 => Gt, 11 => Ge, 12 => Assign, 13 => Colon, 14 => Comma, 15 => Semic, 16 => Plus, 17 => Minus, 18 => Times, 19 => Divide,
            20 => If, 21 => Else, 22 => While, 23 => Array, 24 => Of, 25 => Proc, 26 => Ref, 27 => Type, 28 => Var,
            29 => Ident(String::new()), 30 => Char('a'), 31 => Int(IntResult::Int(0)), 32 => Hex(IntResult::Int(0)),
            33 => Comment(String::new()), 34 => Unknown(String::from("'")), 35 => Unknown(String::from("$")), _ => Eof,
        }
    }
    fn wf_change() -> TokenChange {
        let s: usize = kani::any();
        let e: usize = kani::any();
        let n: usize = kani::any();
        kani::assume(s <= e && e <= usize::MAX - n);
        TokenChange::new(s..e, n)
    }
    fn survives(tc: &TokenChange, i: usize) -> bool { i < tc.deletion_range.start || i >= tc.deletion_range.end }

    // the 37 kinds are enumerated concretely (payload strings make a symbolic kind very expensive for CBMC)
    #[kani::proof]
    #[kani::unwind(39)]
    pub fn look_ahead_covers_maximal_munch() {
        let mut k = 0u8;
        while k < 37 {
            let t = kind(k);
            let la = t.look_ahead() as usize;
            assert!(la >= needed_la(&t));
            assert!(la <= 1);
            k += 1;
        }
    }
    #[kani::proof]
    #[kani::unwind(39)]
    pub fn is_affected_by_head_before_edit() {
        let s: usize = kani::any();
        let e: usize = kani::any();
        kani::assume(s <= e && e < usize::MAX);
        let index: usize = kani::any();
        let mut k = 0u8;
        while k < 37 {
            let tok = Token { token_type: kind(k), range: s..e, errors: Vec::new() };
            let need = needed_la(&tok.token_type);
            if !tok.is_affected_by(index) {
                assert!(e + need <= index);
            }
            k += 1;
        }
    }
    #[kani::proof]
    pub fn deletes_nothing_survives() {
        let tc = wf_change();
        let a: usize = kani::any();
        let b: usize = kani::any();
        let i: usize = kani::any();
        if tc.deletes(&(a..b)) && a <= i && i < b {
            assert!(!survives(&tc, i));
        }
    }
    #[kani::proof]
    pub fn overlaps_untouched_tokens_survive() {
        let tc = wf_change();
        let a: usize = kani::any();
        let b: usize = kani::any();
        let i: usize = kani::any();
        if !tc.overlaps(&(a..b)) {
            if a <= i && i < b { assert!(survives(&tc, i)); }
            if tc.deletion_range.start == tc.deletion_range.end {
                assert!(!(a < tc.deletion_range.start && tc.deletion_range.start < b));
            }
        }
    }
    #[kani::proof]
    pub fn out_of_range_first_unchanged_token() {
        let tc = wf_change();
        let p: usize = kani::any();
        assert!(tc.out_of_range(p) == (p >= tc.deletion_range.start + tc.insertion_len));
    }
    #[kani::proof]
    pub fn new_token_pos_image_of_survivor() {
        let tc = wf_change();
        let p: usize = kani::any();
        kani::assume(p <= usize::MAX - tc.insertion_len);
        let want = if p >= tc.deletion_range.end { p + tc.insertion_len - (tc.deletion_range.end - tc.deletion_range.start) } else { p };
        assert!(tc.new_token_pos(p) == want);
    }
    #[kani::proof]
    pub fn is_partially_consumed_start_not_behind_cursor() {
        let tc = wf_change();
        let loc: usize = kani::any();
        let ps: usize = kani::any();
        kani::assume(ps <= usize::MAX - tc.insertion_len);
        if !is_partially_consumed(loc, &tc, ps) {
            let np = if ps >= tc.deletion_range.end { ps + tc.insertion_len - (tc.deletion_range.end - tc.deletion_range.start) } else { ps };
            assert!(loc < tc.deletion_range.start + tc.insertion_len || loc <= np);
        }
    }
    #[kani::proof]
    pub fn is_insertion_here_inside_inserted_tokens() {
        let tc = wf_change();
        let loc: usize = kani::any();
        assert!(is_insertion_here(loc, &tc) == (tc.deletion_range.start <= loc && loc < tc.deletion_range.start + tc.insertion_len));
    }
    #[kani::proof]
    pub fn correct_index_one_back_saturating() {
        let i: usize = kani::any();
        assert!(correct_index(i) == if i > 0 { i - 1 } else { 0 });
    }
}
fn main() {}
