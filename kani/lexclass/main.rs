// Kani unit `lexclass` — the word-character class of the SPL lexical grammar (identifier continuation, keyword boundary).
// Loop-free harness over every `char`: a complete proof, not a bounded one.
#![allow(dead_code)]
//@extract spl_frontend/src/lexer/utility.rs :: fn is_alpha_numeric
//@end

#[cfg(kani)]
mod harness {
    use super::*;
    #[kani::proof]
    pub fn word_class_is_ascii_letters_digits_underscore() {
        let c: char = kani::any();
        kani::cover!(c as u32 > 0xFFFF, "astral char");
        kani::cover!(c == '_', "underscore");
        kani::cover!(c == 'z', "letter");
        // SPL: identifiers are [A-Za-z_][A-Za-z0-9_]*; keywords end where no such character follows
        let want = ('a'..='z').contains(&c) || ('A'..='Z').contains(&c) || ('0'..='9').contains(&c) || c == '_';
        assert!(is_alpha_numeric(c) == want);
    }

    /// concrete non-ASCII letters and digits: decided by plain execution inside CBMC, so it also terminates on
    /// implementations that consult Unicode tables (where the symbolic harness above runs into its cap)
    #[kani::proof]
    pub fn non_ascii_samples_are_not_word_chars() {
        let samples = ['\u{e9}', '\u{130}', '\u{434}', '\u{4e2d}', '\u{661}', '\u{1d7d8}', '\u{aa}'];
        let mut i = 0;
        while i < samples.len() {
            assert!(!is_alpha_numeric(samples[i]));
            i += 1;
        }
        kani::cover!(i == 7, "all samples visited");
    }
}
fn main() {}
