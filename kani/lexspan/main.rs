// Kani unit `lexspan` — C06 "lies on character boundaries ... no character is dropped or counted twice": every token range is
// produced by `impl ToRange for Span` (lexer.rs) from a nom_locate span.  The impl is extracted verbatim and linked with the real
// nom_locate; the claim: the range is the span's byte offset .. offset + byte length of its fragment.
#![allow(dead_code)]
use std::ops::Range;
pub trait ToRange { fn to_range(&self) -> Range<usize>; }
type Span<'a> = nom_locate::LocatedSpan<&'a str>;
//@extract spl_frontend/src/lexer.rs :: impl ToRange for Span<'_>
//@end

#[cfg(kani)]
mod harness {
    use super::*;

    /// all UTF-8 texts of <= 3 bytes, every sub-span on char boundaries (as the lexer's combinators produce them by slicing)
    #[kani::proof]
    #[kani::unwind(6)]
    pub fn span_range_is_byte_offset_and_byte_length() {
        let b: [u8; 3] = kani::any();
        let n: usize = kani::any();
        kani::assume(n <= 3);
        let Ok(s) = std::str::from_utf8(&b[..n]) else { return };
        let a: usize = kani::any();
        let e: usize = kani::any();
        kani::assume(a <= e && e <= n && s.is_char_boundary(a) && s.is_char_boundary(e));
        // a span at byte offset a (what slicing a located span yields; built directly because nom_locate's slice counts lines with
        // SIMD code that Kani cannot translate)
        let span = unsafe { Span::new_from_raw_offset(a, 1, &s[a..e], ()) };
        let r = span.to_range();
        kani::cover!(e - a == 2 && n == 3 && a == 1, "a 2-byte character in the middle");
        assert!(r.start == a && r.end == e);
    }

    /// concrete fragments with 1-, 2-, 3- and 4-byte characters (decided by execution)
    #[kani::proof]
    pub fn span_range_on_sample_fragments() {
        let samples = ["", "a", "\u{e4}", "\u{20ac}", "\u{1F600}", "x\u{e4}y"];
        let mut i = 0;
        while i < samples.len() {
            let r = Span::new(samples[i]).to_range();
            assert!(r.start == 0 && r.end == samples[i].len());
            i += 1;
        }
        kani::cover!(i == 6, "all samples visited");
    }
}
fn main() {}
