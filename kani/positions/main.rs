// Kani unit `positions` — document.rs position <-> offset conversion (C08, C03a, C15, C17, C02)
// The functions under check are extracted verbatim from /repo on every run and linked with the real lsp-types.
#![allow(dead_code)]
use lsp_types::{Position, Range as PosRange};
type TextRange = std::ops::Range<usize>;

//@extract lsp4spl/src/document.rs :: fn is_line_end
//@end
//@extract lsp4spl/src/document.rs :: fn as_position
//@end
//@extract lsp4spl/src/document.rs :: fn as_pos_range
//@end
//@extract lsp4spl/src/document.rs :: fn utf16_len
//@end
//@extract lsp4spl/src/document.rs :: fn as_index_range
//@end
//@extract lsp4spl/src/document.rs :: fn get_insertion_index
//@end

/// Executable reference written from the LSP 3.17 specification text (not from document.rs):
/// positions are (line, UTF-16 code unit offset in line); line terminators are `\n`, `\r\n` and `\r`; a character offset greater than the line length
/// denotes the line end; a line beyond the last one denotes the end of the text.
pub mod lsp_ref {
    use super::Position;

    fn width(b: u8) -> (usize, u32) {
        if b < 0x80 { (1, 1) } else if b < 0xE0 { (2, 1) } else if b < 0xF0 { (3, 1) } else { (4, 2) }
    }

    fn is_eol(b: &[u8], i: usize) -> bool {
        // `\n`, or a `\r` that is not the first half of `\r\n` (that pair ends the line at its `\n`)
        b[i] == b'\n' || (b[i] == b'\r' && !(i + 1 < b.len() && b[i + 1] == b'\n'))
    }

    /// (lo, hi): the offsets a position may resolve to. lo != hi only for a position inside a surrogate pair.
    pub fn offset_of(p: &Position, text: &str) -> (usize, usize) {
        let b = text.as_bytes();
        let mut i = 0usize;
        let mut line = 0u32;
        while line < p.line {
            if i >= b.len() {
                return (b.len(), b.len());
            }
            if is_eol(b, i) {
                line += 1;
            }
            i += 1;
        }
        let mut col = 0u32;
        while i < b.len() && col < p.character {
            // the line ends in front of its terminator: `\n`, `\r\n` or `\r`
            if b[i] == b'\n' || b[i] == b'\r' {
                return (i, i);
            }
            let (w, u) = width(b[i]);
            if col + u > p.character {
                return (i, i + w);
            }
            i += w;
            col += u;
        }
        (i, i)
    }

    /// position of a char-boundary offset
    pub fn position_of(index: usize, text: &str) -> Position {
        let b = text.as_bytes();
        let mut i = 0usize;
        let mut line = 0u32;
        let mut col = 0u32;
        while i < b.len() && i < index {
            if is_eol(b, i) {
                line += 1;
                col = 0;
                i += 1;
            } else {
                let (w, u) = width(b[i]);
                i += w;
                col += u;
            }
        }
        Position { line, character: col }
    }

    pub fn utf16_units(a: usize, b_: usize, text: &str) -> usize {
        let b = text.as_bytes();
        let mut i = a;
        let mut n = 0usize;
        while i < b_ && i < b.len() {
            let (w, u) = width(b[i]);
            i += w;
            n += u as usize;
        }
        n
    }

    pub fn no_lone_cr(b: &[u8]) -> bool {
        let mut i = 0;
        while i < b.len() {
            if b[i] == b'\r' && !(i + 1 < b.len() && b[i + 1] == b'\n') {
                return false;
            }
            i += 1;
        }
        true
    }

    pub fn inside_crlf(i: usize, b: &[u8]) -> bool {
        i > 0 && i < b.len() && b[i - 1] == b'\r' && b[i] == b'\n'
    }
}

#[cfg(kani)]
mod harness {
    use super::*;

    macro_rules! raw_text {
        ($n:expr, $b:ident, $len:ident, $s:ident) => {
            let $b: [u8; $n] = kani::any();
            let $len: usize = kani::any();
            kani::assume($len <= $n);
            let Ok($s) = std::str::from_utf8(&$b[..$len]) else { return };
        };
    }

    macro_rules! harnesses {
        ($modname:ident, $n:expr, $unw:expr) => {
            pub mod $modname {
                use super::*;

                #[kani::proof]
                #[kani::unwind($unw)]
                pub fn insertion_index_matches_lsp() {
                    raw_text!($n, b, n, s);
                    let p = Position { line: kani::any(), character: kani::any() };
                    let got = get_insertion_index(&p, s);
                    let (lo, hi) = lsp_ref::offset_of(&p, s);
                    kani::cover!(n >= 3 && p.line == 1 && p.character > 0, "second line, inside");
                    kani::cover!(lo < n && got == lo && s.as_bytes()[lo] == b'\n' && p.character > 2, "overshoot clamps at line end");
                    kani::cover!(lo != hi, "inside a surrogate pair");
                    assert!(got == lo || got == hi);
                    // char boundary <= len: the panic condition of String::replace_range
                    assert!(got <= n && s.is_char_boundary(got));
                }

                #[kani::proof]
                #[kani::unwind($unw)]
                pub fn as_position_matches_lsp() {
                    raw_text!($n, b, n, s);
                    let i: usize = kani::any();
                    kani::assume(i <= n && s.is_char_boundary(i) && !lsp_ref::inside_crlf(i, &b[..n]));
                    let got = as_position(i, s);
                    let want = lsp_ref::position_of(i, s);
                    kani::cover!(want.line == 1 && want.character == 1, "second line");
                    kani::cover!(want.character == 2 && i == 4, "astral char counts two units");
                    kani::cover!(n >= 2 && b[0] == b'\r' && b[1] != b'\n' && i >= 1 && want.line >= 1, "a lone CR ends a line");
                    assert!(got == want);
                }

                #[kani::proof]
                #[kani::unwind($unw)]
                pub fn as_position_inside_and_monotone() {
                    raw_text!($n, b, n, s);
                    let i: usize = kani::any();
                    let j: usize = kani::any();
                    let end = as_position(n, s);
                    let pi = as_position(i, s);
                    let pj = as_position(j, s);
                    // every index, valid or not, maps inside the document
                    assert!(pi <= end && pj <= end);
                    if i <= j && j <= n && s.is_char_boundary(i) && s.is_char_boundary(j) {
                        kani::cover!(pi.line < pj.line, "crosses a line");
                        assert!(pi <= pj);
                    }
                }

                #[kani::proof]
                #[kani::unwind($unw)]
                pub fn roundtrip_offset_position_offset() {
                    raw_text!($n, b, n, s);
                    let i: usize = kani::any();
                    kani::assume(i <= n && s.is_char_boundary(i) && !lsp_ref::inside_crlf(i, &b[..n]));
                    let p = as_position(i, s);
                    kani::cover!(p.line == 1, "second line");
                    assert!(get_insertion_index(&p, s) == i);
                }

                #[kani::proof]
                #[kani::unwind($unw)]
                pub fn pos_range_componentwise() {
                    raw_text!($n, b, n, s);
                    let a: usize = kani::any();
                    let e: usize = kani::any();
                    let pr = as_pos_range(&(a..e), s);
                    kani::cover!(pr.start != pr.end, "non-empty range");
                    assert!(pr.start == as_position(a, s) && pr.end == as_position(e, s));
                }

                #[kani::proof]
                #[kani::unwind($unw)]
                pub fn index_range_componentwise() {
                    raw_text!($n, b, n, s);
                    let q = PosRange { start: Position { line: kani::any(), character: kani::any() }, end: Position { line: kani::any(), character: kani::any() } };
                    let ir = as_index_range(&q, s);
                    kani::cover!(ir.start < ir.end, "non-empty range");
                    assert!(ir.start == get_insertion_index(&q.start, s) && ir.end == get_insertion_index(&q.end, s));
                }

                #[kani::proof]
                #[kani::unwind($unw)]
                pub fn utf16_len_counts_code_units() {
                    raw_text!($n, b, n, s);
                    let a: usize = kani::any();
                    let e: usize = kani::any();
                    kani::assume(a <= e && e <= n && s.is_char_boundary(a) && s.is_char_boundary(e));
                    let l = utf16_len(&(a..e), s);
                    kani::cover!(l == 2 && e - a == 4, "astral char");
                    assert!(l == lsp_ref::utf16_units(a, e, s));
                }
            }
        };
    }

    harnesses!(n3, 3, 5);
    harnesses!(n4, 4, 6);
    harnesses!(n5, 5, 7);
    harnesses!(n6, 6, 8);
}

fn main() {}
