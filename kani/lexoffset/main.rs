// Kani unit `lexoffset` — C07: "tokens after [the window] are the old ones shifted by the length difference of the edit".
// The displacement is computed by a block inside lexer::update (`let offset: isize = { .. }`), lifted here (R6);
// str length functions have no Verus specification, so this is a Kani harness over short replacement texts (bounded).
#![allow(dead_code)]
use std::ops::Range;
//@extract spl_frontend/src/lib.rs :: struct TextChange
//@ rewrite drop_derive
//@end
//@extract spl_frontend/src/lexer.rs :: fn update :: letblock offset
//@ lift pub fn update_offset(change: &TextChange) -> isize
//@end

#[cfg(kani)]
mod harness {
    use super::*;
    macro_rules! harnesses {
        ($modname:ident, $n:expr, $unw:expr) => {
            pub mod $modname {
                use super::*;
                #[kani::proof]
                #[kani::unwind($unw)]
                pub fn offset_is_byte_length_difference() {
                    let b: [u8; $n] = kani::any();
                    let n: usize = kani::any();
                    kani::assume(n <= $n);
                    let Ok(s) = std::str::from_utf8(&b[..n]) else { return };
                    let start: usize = kani::any();
                    let end: usize = kani::any();
                    // ranges of a text that fits into memory
                    kani::assume(start <= end && end <= (isize::MAX as usize) / 2);
                    let change = TextChange { range: start..end, text: s.to_string() };
                    kani::cover!(n == 2 && s.chars().count() == 1, "multi-byte replacement");
                    kani::cover!(end - start > n, "net deletion");
                    let got = update_offset(&change);
                    // new text length - old text length, in bytes (token ranges are byte ranges)
                    assert!(got == n as isize - (end - start) as isize);
                }
            }
        };
    }
    /// concrete replacement texts with 1-, 2-, 3- and 4-byte characters, symbolic deletion range: decided by execution, so it
    /// also terminates on implementations whose length function does not terminate symbolically
    #[kani::proof]
    pub fn offset_on_sample_texts() {
        let samples = ["", "a", "\u{fc}", "\u{20ac}", "\u{1F600}", "a\u{fc}b"];
        let start: usize = kani::any();
        let end: usize = kani::any();
        kani::assume(start <= end && end <= (isize::MAX as usize) / 2);
        let mut i = 0;
        while i < samples.len() {
            let change = TextChange { range: start..end, text: samples[i].to_string() };
            assert!(update_offset(&change) == samples[i].len() as isize - (end - start) as isize);
            i += 1;
        }
        kani::cover!(i == 6, "all samples visited");
    }
    harnesses!(n2, 2, 4);
    harnesses!(n4, 4, 6);
}
fn main() {}
