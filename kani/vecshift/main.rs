// Kani unit `vecshift` — bounded check of the contract that the Verus units assume for
// `impl Shiftable for Vec<SplError>` (iterator adapters, outside Verus).
#![allow(dead_code)]
use std::ops::Range;
//@include types_error.rs
//@extract spl_frontend/src/lib.rs :: trait Shiftable
//@end
//@extract spl_frontend/src/lib.rs :: impl Shiftable for Range<usize>
//@end
//@extract spl_frontend/src/error.rs :: impl Shiftable for SplError
//@end
//@extract spl_frontend/src/error.rs :: impl Shiftable for Vec<SplError>
//@end

#[cfg(kani)]
mod harness {
    use super::*;

    fn msg(k: u8) -> ErrorMessage {
        match k % 3 {
            0 => ErrorMessage::LexErrorMessage(LexErrorMessage::MissingClosingTick),
            1 => ErrorMessage::SemanticErrorMessage(SemanticErrorMessage::IndexingNonArray),
            _ => ErrorMessage::BuildErrorMessage(BuildErrorMessage::MainIsMissing),
        }
    }
    fn same_kind(a: &ErrorMessage, k: u8) -> bool {
        match (a, k % 3) {
            (ErrorMessage::LexErrorMessage(LexErrorMessage::MissingClosingTick), 0) => true,
            (ErrorMessage::SemanticErrorMessage(SemanticErrorMessage::IndexingNonArray), 1) => true,
            (ErrorMessage::BuildErrorMessage(BuildErrorMessage::MainIsMissing), 2) => true,
            _ => false,
        }
    }

    macro_rules! harnesses {
        ($modname:ident, $n:expr) => {
            pub mod $modname {
                use super::*;
                #[kani::proof]
                #[kani::unwind(4)]
                pub fn vec_shift_moves_every_element_in_order() {
                    let n: usize = kani::any();
                    kani::assume(n <= $n);
                    let offset: usize = kani::any();
                    let mut s: [(usize, usize, u8); 2] = kani::any();
                    // message kinds are fixed per slot: the message is moved, never inspected, by the code under check
                    s[0].2 = 0;
                    s[1].2 = 1;
                    let mut v = Vec::new();
                    let mut i = 0;
                    while i < n {
                        // precondition of the contract: the displaced range is representable
                        kani::assume(s[i].0 <= usize::MAX - offset && s[i].1 <= usize::MAX - offset);
                        v.push(SplError(s[i].0..s[i].1, msg(s[i].2)));
                        i += 1;
                    }
                    let r = v.shift(offset);
                    kani::cover!(n == $n && offset > 0, "all elements moved");
                    assert!(r.len() == n);
                    let mut i = 0;
                    while i < n {
                        assert!(r[i].0.start == s[i].0 + offset && r[i].0.end == s[i].1 + offset);
                        assert!(same_kind(&r[i].1, s[i].2));
                        i += 1;
                    }
                }
            }
        };
    }
    harnesses!(n1, 1);
    harnesses!(n2, 2);
}

fn main() {}
