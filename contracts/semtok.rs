// unit `semtok` — C15: delta encoding decodes to the token's position and UTF-16 length; keywords, numbers and comments
// carry their lexical class; the declaration modifier sits exactly on the declaring name token
use vstd::prelude::*;
use std::ops::Range;
use std::collections::HashMap;
use std::fmt::Debug;
verus! {
//@include shims.rs
//@include types_error.rs
//@include types_tokens.rs
//@include types_ast.rs
//@include inc_positions.rs

//~assume Range<usize>::clone returns an equal range (assume_specification through vstd's `cloned`)
pub assume_specification<Idx: Clone> [<Range<Idx> as Clone>::clone] (r: &Range<Idx>) -> (c: Range<Idx>)
    ensures cloned(r.start, c.start), cloned(r.end, c.end);

// R7 stand-in for lsp_types::SemanticToken (same public fields)
pub struct SemanticToken { pub delta_line: u32, pub delta_start: u32, pub length: u32, pub token_type: u32, pub token_modifiers_bitset: u32 }

//@extract lsp4spl/src/features/semantic_tokens.rs :: enum SemanticTokenType
//@end
//@extract lsp4spl/src/features/semantic_tokens.rs :: enum SemanticTokenModifier
//@end
//@extract lsp4spl/src/features/semantic_tokens.rs :: impl From<SemanticTokenType> for u32
//@end
//@extract lsp4spl/src/features/semantic_tokens.rs :: impl From<SemanticTokenModifier> for u32
//@end
// legend announced in initialize (main.rs / TOKEN_TYPES): comment, keyword, number, type, function, parameter, variable;
// modifiers: declaration = bit 0.  These spec impls state the legend indices; the `as u32` casts above must produce them.
impl vstd::std_specs::convert::FromSpecImpl<SemanticTokenType> for u32 {
    open spec fn obeys_from_spec() -> bool { true }
    open spec fn from_spec(v: SemanticTokenType) -> u32 {
        match v { SemanticTokenType::Comment => 0, SemanticTokenType::Keyword => 1, SemanticTokenType::Number => 2, SemanticTokenType::Type => 3,
                  SemanticTokenType::Function => 4, SemanticTokenType::Parameter => 5, SemanticTokenType::Variable => 6 }
    }
}
impl vstd::std_specs::convert::FromSpecImpl<SemanticTokenModifier> for u32 {
    open spec fn obeys_from_spec() -> bool { true }
    open spec fn from_spec(v: SemanticTokenModifier) -> u32 { match v { SemanticTokenModifier::None => 0, SemanticTokenModifier::Declaration => 1 } }
}

// ---------- spec vocabulary
/// LSP delta decoding: line = previous line + deltaLine; start = deltaStart (+ previous start when on the same line)
pub open spec fn decode(prev: Position, t: SemanticToken) -> Position {
    Position { line: (prev.line + t.delta_line) as u32, character: (if t.delta_line == 0 { prev.character + t.delta_start } else { t.delta_start as int }) as u32 }
}
/// lexical class by the legend: comments 0, keywords 1, numbers (int, hex, char literals) 2, everything else none
pub open spec fn class_of(t: TokenType) -> Option<u32> {
    match t {
        TokenType::Comment(_) => Some(0u32),
        TokenType::If | TokenType::Else | TokenType::While | TokenType::Array | TokenType::Of | TokenType::Proc | TokenType::Ref | TokenType::Type | TokenType::Var => Some(1u32),
        TokenType::Int(_) | TokenType::Hex(_) | TokenType::Char(_) => Some(2u32),
        _ => None,
    }
}
pub open spec fn token_ok(token: Token, prev: Position, text: Seq<char>) -> bool {
    text_fits(text) && pos_le(prev, pos_of(token.range.start, text)) && token.range.start <= token.range.end && utf16_units(token.range.start, token.range.end, text) <= u32::MAX
}
/// the emitted token coincides with the lexical token: position, UTF-16 length
pub open spec fn coincides(out: SemanticToken, token: Token, prev: Position, text: Seq<char>) -> bool {
    decode(prev, out) == pos_of(token.range.start, text) && out.length == utf16_units(token.range.start, token.range.end, text)
}

pub open spec fn symbol_kind(t: TokenType) -> bool {
    t is LParen || t is RParen || t is LBracket || t is RBracket || t is LCurly || t is RCurly || t is Eq || t is Neq || t is Lt || t is Le
    || t is Gt || t is Ge || t is Assign || t is Colon || t is Comma || t is Semic || t is Plus || t is Minus || t is Times || t is Divide
}
//@extract spl_frontend/src/tokens.rs :: impl TokenType :: fn is_symbol
//@ ret b
//@ sig
        ensures b == symbol_kind(*self), //# TokenType::is_symbol::the_twenty_symbols
//@end
//@extract spl_frontend/src/tokens.rs :: impl TokenType :: fn is_keyword
//@ ret b
//@ sig
        ensures b == (self is If || self is Else || self is While || self is Array || self is Of || self is Proc || self is Ref || self is Type || self is Var), //# TokenType::is_keyword::the_nine_keywords
//@end

//@extract lsp4spl/src/features/semantic_tokens.rs :: fn create_semantic_token
//@ ret out
//@ sig
    requires token_ok(*token, previous_token_pos, text@),
    ensures
        decode(previous_token_pos, out) == pos_of(token.range.start, text@), //# create_semantic_token::decodes_to_token_position
        out.length == utf16_units(token.range.start, token.range.end, text@), //# create_semantic_token::utf16_length
        out.token_type == token_type && out.token_modifiers_bitset == token_modifier, //# create_semantic_token::type_and_modifier_passed_through
//@end
//@extract lsp4spl/src/features/semantic_tokens.rs :: fn map_token
//@ ret r
//@ sig
    requires token_ok(*token, previous_token_pos, text@),
    ensures
        (r is Some) == (class_of(token.token_type) is Some), //# map_token::classified_iff_comment_keyword_number
        r is Some ==> r->0.token_type == class_of(token.token_type)->0 && r->0.token_modifiers_bitset == 0, //# map_token::lexical_class
        r is Some ==> coincides(r->0, *token, previous_token_pos, text@), //# map_token::coincides_with_token
//@end

// ---------- which token declares a name
pub trait ToRange {
    spec fn range_spec(&self) -> Range<usize>;
    fn to_range(&self) -> (r: Range<usize>)
        ensures r == self.range_spec();
}
//@extract spl_frontend/src/ast.rs :: impl ToRange for AstInfo
//@ open
    open spec fn range_spec(&self) -> Range<usize> { self.range }
//@end
//@extract spl_frontend/src/ast.rs :: derive ToRange :: struct Identifier
//@ open
    open spec fn range_spec(&self) -> Range<usize> { self.info.range }
//@end
/// "Identifier position is the last in the range (which might contain comments)" (error.rs): the name's own token is the
/// last token of the identifier's range, which is relative to the Reference at `offset`
pub open spec fn name_token(name: Identifier, offset: usize, ts: Seq<Token>) -> Option<Range<usize>> {
    let end = offset + name.info.range.end;
    if 0 < end <= ts.len() { Some(ts[end - 1].range) } else { None }
}
//@extract lsp4spl/src/features/semantic_tokens.rs :: fn name_token_range
//@ rewrite range_is_empty
//@ ret r
//@ sig
    requires offset + name.info.range.end <= usize::MAX,
    ensures r == name_token(*name, offset, tokens@), //# name_token_range::last_token_of_the_name
//@end
//@extract spl_frontend/src/ast.rs :: impl AstInfo :: fn slice
//@ ret r
//@ sig
        requires self.range.start <= self.range.end <= tokens@.len(),
        ensures r@ == tokens@.subrange(self.range.start as int, self.range.end as int),
//@end

// ---------- the per-token closures of the declaration walks (R6: lifted, body verbatim)
//~assume the closures of collect_type_dec / collect_error are applied to every token of the declaration's slice in order (iter().filter_map(); R6); `previous_token_pos` is the position of the last emitted token
//~not_decided which entries the symbol table holds for a procedure (abstract map view; built in table/build.rs, unit `decls`) and the order across global declarations (iterator in the async handler)
//@extract lsp4spl/src/features/semantic_tokens.rs :: fn collect_type_dec :: closure |token|
//@ rewrite range_eq_deref
//@ lift pub fn collect_type_dec_closure(token: &Token, name_range: &Option<Range<usize>>, text: &str, previous_token_pos: &mut Position) -> (r: Option<SemanticToken>)
//@ sig
    requires token_ok(*token, *old(previous_token_pos), text@),
    ensures
        r is Some ==> coincides(r->0, *token, *old(previous_token_pos), text@) && *final(previous_token_pos) == pos_of(token.range.start, text@), //# collect_type_dec::emitted_token_coincides_and_state_advances
        r is None ==> *final(previous_token_pos) == *old(previous_token_pos), //# collect_type_dec::state_kept_when_nothing_emitted
        // the declaring occurrence: TYPE with the declaration bit, exactly on the name's own token
        (*name_range is Some && name_range->0 == token.range) ==> r is Some && r->0.token_type == 3 && r->0.token_modifiers_bitset == 1, //# collect_type_dec::declaration_bit_on_the_name_token
        !(*name_range is Some && name_range->0 == token.range) ==> (r is Some ==> r->0.token_modifiers_bitset == 0), //# collect_type_dec::no_declaration_bit_elsewhere
        !(*name_range is Some && name_range->0 == token.range) && token.token_type is Ident ==> r is Some && r->0.token_type == 3, //# collect_type_dec::other_identifiers_are_types
        !(*name_range is Some && name_range->0 == token.range) && !(token.token_type is Ident) ==> ((r is Some) == (class_of(token.token_type) is Some)) && (r is Some ==> r->0.token_type == class_of(token.token_type)->0), //# collect_type_dec::lexical_class_otherwise
//@end
//@extract lsp4spl/src/features/semantic_tokens.rs :: fn collect_error :: closure |token|
//@ lift pub fn collect_error_closure(token: &Token, text: &str, previous_token_pos: &mut Position) -> (r: Option<SemanticToken>)
//@ sig
    requires token_ok(*token, *old(previous_token_pos), text@),
    ensures
        r is Some ==> coincides(r->0, *token, *old(previous_token_pos), text@) && *final(previous_token_pos) == pos_of(token.range.start, text@), //# collect_error::emitted_token_coincides_and_state_advances
        r is None ==> *final(previous_token_pos) == *old(previous_token_pos), //# collect_error::state_kept_when_nothing_emitted
        ((r is Some) == (class_of(token.token_type) is Some)) && (r is Some ==> r->0.token_type == class_of(token.token_type)->0 && r->0.token_modifiers_bitset == 0), //# collect_error::lexical_class
//@end

// ---------- identifiers inside a procedure: kind by the entity the symbol table binds the name to
//@include inc_symtab.rs
//~assume Vec<Range<usize>>::contains (slice::contains, PartialEq for Range) holds iff some element has the same start and end
#[verifier::external_body]
pub fn ranges_contain(v: &Vec<Range<usize>>, r: &Range<usize>) -> (b: bool)
    ensures b == exists|i: int| 0 <= i < v@.len() && v@[i] == *r,
{ v.contains(r) }
/// legend kind of a bound identifier: type 3, function 4, parameter 5, variable 6
pub open spec fn kind_of(e: Entry) -> u32 {
    match e { Entry::Type(_) => 3u32, Entry::Procedure(_) => 4u32, Entry::Parameter(_) => 5u32, Entry::Variable(_) => 6u32 }
}
pub open spec fn is_local(e: Entry) -> bool { e is Parameter || e is Variable }
pub open spec fn in_ranges(v: Seq<Range<usize>>, r: Range<usize>) -> bool { exists|i: int| 0 <= i < v.len() && v[i] == r }
/// any other identifier: the kind of the entity it is bound to; the declaration bit exactly on the tokens that declare a
/// parameter or local variable; an unbound identifier gets no token
pub open spec fn ident_token_ok(token: Token, table: LookupTable, decls: Seq<Range<usize>>, r: Option<SemanticToken>) -> bool {
    match lookup_spec(table, token.token_type->Ident_0@) {
        Some(e) => r is Some && r->0.token_type == kind_of(e)
            && r->0.token_modifiers_bitset == (if is_local(e) && in_ranges(decls, token.range) { 1u32 } else { 0u32 }),
        None => r is None,
    }
}
//@extract lsp4spl/src/features/semantic_tokens.rs :: fn collect_proc_dec :: closure |token|
//@ rewrite range_eq_deref map_inline ranges_contain
//@ lift pub fn collect_proc_dec_closure<'a>(token: &Token, name_range: &Option<Range<usize>>, local_declarations: &Vec<Range<usize>>, lookup_table: &LookupTable<'a>, text: &str, previous_token_pos: &mut Position) -> (r: Option<SemanticToken>)
//@ sig
    requires token_ok(*token, *old(previous_token_pos), text@),
    ensures
        r is Some ==> coincides(r->0, *token, *old(previous_token_pos), text@) && *final(previous_token_pos) == pos_of(token.range.start, text@), //# collect_proc_dec::emitted_token_coincides_and_state_advances
        r is None ==> *final(previous_token_pos) == *old(previous_token_pos), //# collect_proc_dec::state_kept_when_nothing_emitted
        // the procedure's own name: FUNCTION with the declaration bit
        (*name_range is Some && name_range->0 == token.range) ==> r is Some && r->0.token_type == 4 && r->0.token_modifiers_bitset == 1, //# collect_proc_dec::procedure_name_is_a_declared_function
        // any other identifier: the kind of the entity it is bound to; the declaration bit exactly on the tokens that declare a parameter or local variable
        !(*name_range is Some && name_range->0 == token.range) && token.token_type is Ident ==> ident_token_ok(*token, *lookup_table, local_declarations@, r), //# collect_proc_dec::identifier_kind_by_binding_and_declaration_bit
        !(*name_range is Some && name_range->0 == token.range) && !(token.token_type is Ident) ==> ((r is Some) == (class_of(token.token_type) is Some)) && (r is Some ==> r->0.token_type == class_of(token.token_type)->0 && r->0.token_modifiers_bitset == 0), //# collect_proc_dec::lexical_class_otherwise
//@end


// ---------- the top-level closure of `semantic_tokens`: every global declaration is walked over its own tokens
/// what the three collectors emit for a declaration over a token slice, and the position they leave behind (their per-token closures are under contract above; the
/// walks themselves are `FnMut` closures in iterator chains)
/// the walk of a collector over a token slice in order (its per-token step is the verified lifted closure; the iteration is `iter().filter_map(FnMut)`, outside Verus)
pub uninterp spec fn proc_walk(ts: Seq<Token>, name_range: Option<Range<usize>>, local_declarations: Seq<Range<usize>>, lookup: LookupTable, text: Seq<char>, prev: Position) -> (Seq<SemanticToken>, Position);
pub uninterp spec fn type_walk(ts: Seq<Token>, name_range: Option<Range<usize>>, text: Seq<char>, prev: Position) -> (Seq<SemanticToken>, Position);
pub uninterp spec fn error_walk(ts: Seq<Token>, text: Seq<char>, prev: Position) -> (Seq<SemanticToken>, Position);
//~assume (R13) the three walks apply the verified per-token closure to every token of the slice in order, threading `previous_token_pos`, and collect the emitted tokens; they are named by uninterpreted functions of their inputs
#[verifier::external_body]
pub fn proc_tokens_walk<'a>(ts: &[Token], name_range: &Option<Range<usize>>, local_declarations: &Vec<Range<usize>>, lookup_table: &LookupTable<'a>, text: &str, previous_token_pos: &mut Position) -> (r: Vec<SemanticToken>)
    ensures (r@, *final(previous_token_pos)) == proc_walk(ts@, *name_range, local_declarations@, *lookup_table, text@, *old(previous_token_pos)),
{ unimplemented!() }
#[verifier::external_body]
pub fn type_tokens_walk(ts: &[Token], name_range: &Option<Range<usize>>, text: &str, previous_token_pos: &mut Position) -> (r: Vec<SemanticToken>)
    ensures (r@, *final(previous_token_pos)) == type_walk(ts@, *name_range, text@, *old(previous_token_pos)),
{ unimplemented!() }
#[verifier::external_body]
pub fn error_tokens_walk(ts: &[Token], text: &str, previous_token_pos: &mut Position) -> (r: Vec<SemanticToken>)
    ensures (r@, *final(previous_token_pos)) == error_walk(ts@, text@, *old(previous_token_pos)),
{ unimplemented!() }
/// the token that declares a declaration's name: the name's own token, relative to the declaration's first token (offset 0)
pub open spec fn declared_name(name: Option<Identifier>, ts: Seq<Token>) -> Option<Range<usize>> {
    match name { Some(n) => name_token(n, 0, ts), None => None }
}
pub open spec fn own_scope<'a>(pd: ProcedureDeclaration, table: &'a GlobalTable) -> LookupTable<'a> {
    LookupTable { local_table: (match pd.name {
        Some(name) => if gmap(*table).contains_key(name.value@) { match gmap(*table)[name.value@] { GlobalEntry::Procedure(p) => Some(&p.local_table), GlobalEntry::Type(_) => None } } else { None },
        None => None }), global_table: Some(table) }
}
/// a procedure is walked over its own tokens, with its own name token as the declaring token, the name tokens of its parameters and variables as local
/// declarations, and its own local scope before the global one
pub open spec fn proc_out(pd: ProcedureDeclaration, table: GlobalTable, text: Seq<char>, ts: Seq<Token>, prev: Position) -> (Seq<SemanticToken>, Position) {
    proc_walk(ts.subrange(pd.info.range.start as int, pd.info.range.end as int), declared_name(pd.name, ts),
        param_decl_ranges(pd.parameters@, ts, pd.parameters@.len()) + var_decl_ranges(pd.variable_declarations@, ts, pd.variable_declarations@.len()), own_scope(pd, &table), text, prev)
}
pub open spec fn type_out(td: TypeDeclaration, text: Seq<char>, ts: Seq<Token>, prev: Position) -> (Seq<SemanticToken>, Position) {
    type_walk(ts.subrange(td.info.range.start as int, td.info.range.end as int), declared_name(td.name, ts), text, prev)
}
pub open spec fn error_out(info: AstInfo, text: Seq<char>, ts: Seq<Token>, prev: Position) -> (Seq<SemanticToken>, Position) {
    error_walk(ts.subrange(info.range.start as int, info.range.end as int), text, prev)
}
//~assume `get_local_table` satisfies its contract (proved in unit `cursor`, used here by contract)
//@extract lsp4spl/src/features.rs :: fn get_local_table
//@ ret r
//@ sig
    ensures match own_scope(*pd, global_table).local_table { Some(t) => r is Some && *r->0 == *t, None => r is None },
//@ assume_body fn get_local_table
//@end
//@extract lsp4spl/src/features/semantic_tokens.rs :: fn collect_proc_dec
//@ rewrite proc_tokens_walk super_get_local_table and_then_inline
//@ ret r
//@ sig
    requires pd.info.range.start <= pd.info.range.end <= tokens@.len(), decl_offsets_fit(*pd), pd.name is Some ==> pd.name->0.info.range.end <= usize::MAX,
    ensures (r@, *final(previous_token_pos)) == proc_out(*pd, *global_table, text@, tokens@, *old(previous_token_pos)), //# collect_proc_dec::own_tokens_own_name_own_declarations_own_scope
//@end
//@extract lsp4spl/src/features/semantic_tokens.rs :: fn collect_type_dec
//@ rewrite type_tokens_walk and_then_inline
//@ ret r
//@ sig
    requires td.info.range.start <= td.info.range.end <= tokens@.len(),
    ensures (r@, *final(previous_token_pos)) == type_out(*td, text@, tokens@, *old(previous_token_pos)), //# collect_type_dec::own_tokens_and_own_name_token
//@end
//@extract lsp4spl/src/features/semantic_tokens.rs :: fn collect_error
//@ rewrite error_tokens_walk
//@ ret r
//@ sig
    requires info.range.start <= info.range.end <= tokens@.len(),
    ensures (r@, *final(previous_token_pos)) == error_out(*info, text@, tokens@, *old(previous_token_pos)), //# collect_error::own_tokens
//@end
//~assume &tokens[offset..] is the suffix of the slice from `offset` (RangeFrom indexing; panics iff offset > len)
#[verifier::external_body]
pub fn slice_from<'a>(tokens: &'a [Token], offset: usize) -> (r: &'a [Token])
    requires offset <= tokens@.len(),
    ensures r@ == tokens@.subrange(offset as int, tokens@.len() as int),
{ &tokens[offset..] }
/// token indexes inside a declaration are relative to its first token: every collector sees `tokens[gd.offset..]`
pub open spec fn decl_out(gd: Reference<GlobalDeclaration>, table: GlobalTable, text: Seq<char>, ts: Seq<Token>, prev: Position) -> (Seq<SemanticToken>, Position) {
    let own = ts.subrange(gd.offset as int, ts.len() as int);
    match gd.reference {
        GlobalDeclaration::Procedure(pd) => proc_out(pd, table, text, own, prev),
        GlobalDeclaration::Type(td) => type_out(td, text, own, prev),
        GlobalDeclaration::Error(info) => error_out(info, text, own, prev),
    }
}
/// the declaration's Reference offset and token range lie inside the token vector (parser; assumed)
pub open spec fn decl_in_tokens(gd: Reference<GlobalDeclaration>, ts: Seq<Token>) -> bool {
    gd.offset <= ts.len() && match gd.reference {
        GlobalDeclaration::Procedure(pd) => pd.info.range.start <= pd.info.range.end <= ts.len() - gd.offset && decl_offsets_fit(pd) && (pd.name is Some ==> pd.name->0.info.range.end <= usize::MAX),
        GlobalDeclaration::Type(td) => td.info.range.start <= td.info.range.end <= ts.len() - gd.offset,
        GlobalDeclaration::Error(info) => info.range.start <= info.range.end <= ts.len() - gd.offset,
    }
}
//@extract lsp4spl/src/features/semantic_tokens.rs :: fn semantic_tokens :: closure |gd|
//@ rewrite tokens_from_gd_offset captured_mut_pos
//@ lift pub fn tokens_of_declaration(gd: &Reference<GlobalDeclaration>, global_table: GlobalTable, text: String, tokens: &Vec<Token>, previous_token_pos: &mut Position) -> (r: Vec<SemanticToken>)
//@ sig
    requires decl_in_tokens(*gd, tokens@),
    ensures (r@, *final(previous_token_pos)) == decl_out(*gd, global_table, text@, tokens@, *old(previous_token_pos)), //# semantic_tokens::every_declaration_over_its_own_tokens
//@end
// ---------- local_declaration_ranges: which tokens declare the parameters and local variables of a procedure
pub open spec fn param_name(p: Reference<ParameterDeclaration>) -> Option<Identifier> {
    match p.reference { ParameterDeclaration::Valid { doc, is_ref, name, type_expr, info } => name, _ => None }
}
pub open spec fn var_name(v: Reference<VariableDeclaration>) -> Option<Identifier> {
    match v.reference { VariableDeclaration::Valid { doc, name, type_expr, info } => name, _ => None }
}
/// the name tokens of the first n parameters, in order (a declaration without a name, or whose name token does not exist, contributes nothing)
pub open spec fn param_decl_ranges(ps: Seq<Reference<ParameterDeclaration>>, ts: Seq<Token>, n: nat) -> Seq<Range<usize>>
    decreases n
{
    if n == 0 || n > ps.len() { Seq::empty() } else {
        param_decl_ranges(ps, ts, (n - 1) as nat) + (match param_name(ps[n - 1]) { Some(name) => match name_token(name, ps[n - 1].offset, ts) { Some(r) => seq![r], None => Seq::empty() }, None => Seq::empty() })
    }
}
pub open spec fn var_decl_ranges(vs: Seq<Reference<VariableDeclaration>>, ts: Seq<Token>, n: nat) -> Seq<Range<usize>>
    decreases n
{
    if n == 0 || n > vs.len() { Seq::empty() } else {
        var_decl_ranges(vs, ts, (n - 1) as nat) + (match var_name(vs[n - 1]) { Some(name) => match name_token(name, vs[n - 1].offset, ts) { Some(r) => seq![r], None => Seq::empty() }, None => Seq::empty() })
    }
}
pub open spec fn decl_offsets_fit(pd: ProcedureDeclaration) -> bool {
    (forall|i: int| 0 <= i < pd.parameters@.len() ==> match param_name(#[trigger] pd.parameters@[i]) { Some(name) => pd.parameters@[i].offset + name.info.range.end <= usize::MAX, None => true })
    && (forall|i: int| 0 <= i < pd.variable_declarations@.len() ==> match var_name(#[trigger] pd.variable_declarations@[i]) { Some(name) => pd.variable_declarations@[i].offset + name.info.range.end <= usize::MAX, None => true })
}
//@extract spl_frontend/src/ast.rs :: impl<T> AsRef<T> for Reference<T>
//@ ret r fn as_ref
//@ sig fn as_ref
        ensures *r == self.reference,
//@end
//@extract lsp4spl/src/features/semantic_tokens.rs :: fn local_declaration_ranges
//@ ret r
//@ sig
    requires decl_offsets_fit(*pd),
    ensures r@ == param_decl_ranges(pd.parameters@, tokens@, pd.parameters@.len()) + var_decl_ranges(pd.variable_declarations@, tokens@, pd.variable_declarations@.len()), //# local_declaration_ranges::the_name_token_of_every_parameter_and_local_variable_in_order
//@ before "&pd.parameters {"
it: 
//@ loop 0
        invariant
            decl_offsets_fit(*pd), it.seq().len() == pd.parameters@.len(),
            forall|k: int| 0 <= k < pd.parameters@.len() ==> *it.seq()[k] == pd.parameters@[k],
            ranges@ == param_decl_ranges(pd.parameters@, tokens@, it.index@ as nat),
//@ after "for param in &pd.parameters {"
        assert(*param == pd.parameters@[it.index@ as int]);
//@ before "&pd.variable_declarations {"
it2: 
//@ loop 1
        invariant
            decl_offsets_fit(*pd), it2.seq().len() == pd.variable_declarations@.len(),
            forall|k: int| 0 <= k < pd.variable_declarations@.len() ==> *it2.seq()[k] == pd.variable_declarations@[k],
            ranges@ == param_decl_ranges(pd.parameters@, tokens@, pd.parameters@.len()) + var_decl_ranges(pd.variable_declarations@, tokens@, it2.index@ as nat),
//@ after "for var in &pd.variable_declarations {"
        assert(*var == pd.variable_declarations@[it2.index@ as int]);
//@end
/// "decodes to strictly increasing tokens": if the walk visits tokens with strictly increasing start positions, the
/// decoded positions are the tokens' positions, hence strictly increasing as well (one step of the induction)
pub proof fn lemma_walk_step(prev: Position, t1: Token, t2: Token, s1: SemanticToken, s2: SemanticToken, text: Seq<char>)
    requires coincides(s1, t1, prev, text), coincides(s2, t2, pos_of(t1.range.start, text), text),
    ensures decode(decode(prev, s1), s2) == pos_of(t2.range.start, text), //# lemma_walk_step
{ }

pub proof fn witness_semtok() {
    let p = Position { line: 1, character: 2 };
    let t = SemanticToken { delta_line: 0, delta_start: 3, length: 1, token_type: 0, token_modifiers_bitset: 0 };
    assert(decode(p, t) == Position { line: 1, character: 5 });
}
}
fn main() {}
