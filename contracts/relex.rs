// unit `relex` — C07: the whole of `lexer::update` around the re-lexing of the affected text (C02: its panics)
// The nom iterator that re-lexes (`iterator(input, preceded(multispace0, Token::lex)) … .collect()`) cannot be ingested by Verus; the three statements
// from `let reanalysis_text` to the end of `let new_tokens` are replaced by a call of an unspecified function `relex` (R16, logged): whatever it
// returns, the rest of `update` — which runs verbatim — must produce a truthful window.
use vstd::prelude::*;
use std::ops::Range;
verus! {
//@include shims.rs
//@include types_error.rs
//@include types_tokens.rs

//@include inc_shiftable.rs

//@extract spl_frontend/src/lib.rs :: struct TextChange
//@ rewrite drop_derive
//@end

// ---------- spec vocabulary (from the statement of C07)
pub open spec fn token_moved(t: Token, d: int, r: Token) -> bool {
    r.token_type == t.token_type && r.range == range_plus(t.range, d) && r.errors@ =~= errs_plus(t.errors@, d)
}
pub open spec fn wf_change(tc: &TokenChange) -> bool {
    tc.deletion_range.start <= tc.deletion_range.end && tc.deletion_range.end + tc.insertion_len <= usize::MAX
}
pub open spec fn new_pos(tc: &TokenChange, i: int) -> int {
    if i >= tc.deletion_range.end { i + tc.insertion_len - (tc.deletion_range.end - tc.deletion_range.start) } else { i }
}
/// the token sequence of a text: ordered, non-overlapping, every token non-empty or the last (C06; established by the nom lexer, assumed here)
#[verifier::opaque]
pub open spec fn ordered(ts: Seq<Token>) -> bool {
    &&& forall|i: int| 0 <= i < ts.len() ==> (#[trigger] ts[i]).range.start <= ts[i].range.end
    &&& forall|i: int, j: int| 0 <= i < j < ts.len() ==> (#[trigger] ts[i]).range.end <= (#[trigger] ts[j]).range.start && ts[i].range.end < ts[j].range.end && ts[i].range.start < ts[j].range.start
}
/// lexical errors lie at or behind the start of their token (they are created from spans inside the token)
pub open spec fn errors_inside(t: Token) -> bool {
    forall|k: int| 0 <= k < t.errors@.len() ==> t.range.start <= (#[trigger] t.errors@[k]).0.start <= t.errors@[k].0.end
}
#[verifier::opaque]
pub open spec fn all_errors_inside(ts: Seq<Token>) -> bool { forall|i: int| 0 <= i < ts.len() ==> errors_inside(#[trigger] ts[i]) }
pub proof fn lemma_errors_inside_at(ts: Seq<Token>, i: int)
    requires all_errors_inside(ts), 0 <= i < ts.len(),
    ensures errors_inside(ts[i]),
{ reveal(all_errors_inside); }
/// one pair of an ordered sequence
pub proof fn lemma_ordered_at(ts: Seq<Token>, i: int, j: int)
    requires ordered(ts), 0 <= i < j < ts.len(),
    ensures ts[i].range.end <= ts[j].range.start, ts[i].range.end < ts[j].range.end, ts[i].range.start < ts[j].range.start, ts[i].range.start <= ts[i].range.end, ts[j].range.start <= ts[j].range.end,
{ reveal(ordered); }
/// "how many characters behind its end a token's identity can depend on" — the same table as in unit `window`
pub open spec fn needed_la(t: TokenType) -> int {
    match t {
        TokenType::If | TokenType::Else | TokenType::While | TokenType::Array | TokenType::Of | TokenType::Proc
        | TokenType::Ref | TokenType::Type | TokenType::Var | TokenType::Ident(_) | TokenType::Int(_) | TokenType::Hex(_)
        | TokenType::Char(_) | TokenType::Colon | TokenType::Lt | TokenType::Gt | TokenType::Divide | TokenType::Comment(_) => 1,
        TokenType::Unknown(s) => if s@ == seq!['\''] { 1 } else { 0 },
        _ => 0,
    }
}

// ---------- shims for the iterator chains of `update` (R8)
pub open spec fn filter_tokens(ts: Seq<Token>, g: spec_fn(Token) -> bool, n: nat) -> Seq<Token>
    decreases n
{
    if n == 0 || n > ts.len() { Seq::empty() } else if g(ts[n - 1]) { filter_tokens(ts, g, (n - 1) as nat).push(ts[n - 1]) } else { filter_tokens(ts, g, (n - 1) as nat) }
}
//~assume `v.into_iter().partition(p)` returns the elements that satisfy p and those that do not, each in their order (std iterator semantics; R8)
#[verifier::external_body]
pub fn partition_collect<F: Fn(&Token) -> bool>(items: Vec<Token>, f: F, Ghost(g): Ghost<spec_fn(Token) -> bool>) -> (r: (Vec<Token>, Vec<Token>))
    requires
        forall|i: int| 0 <= i < items@.len() ==> call_requires(f, (&#[trigger] items@[i],)),
        forall|i: int, out: bool| 0 <= i < items@.len() && #[trigger] call_ensures(f, (&items@[i],), out) ==> out == g(items@[i]),
    ensures
        r.0@ == filter_tokens(items@, g, items@.len()),
        r.1@ == filter_tokens(items@, |t: Token| !g(t), items@.len()),
{ items.into_iter().partition(f) }
//~assume `v.into_iter().map(f).collect()` applies f to every element in order (std iterator semantics; R6)
#[verifier::external_body]
pub fn vec_map_collect<F: Fn(Token) -> Token>(v: Vec<Token>, f: F) -> (r: Vec<Token>)
    requires forall|i: int| 0 <= i < v@.len() ==> call_requires(f, (#[trigger] v@[i],)),
    ensures r@.len() == v@.len(), forall|i: int| 0 <= i < v@.len() ==> call_ensures(f, (v@[i],), #[trigger] r@[i]),
{ v.into_iter().map(f).collect() }
//~assume `v.into_iter().skip_while(p).collect()` drops the longest prefix whose elements satisfy p and keeps the rest in order (std iterator semantics; R8)
#[verifier::external_body]
pub fn skip_while_collect<F: Fn(&Token) -> bool>(items: Vec<Token>, f: F, Ghost(g): Ghost<spec_fn(Token) -> bool>) -> (r: Vec<Token>)
    requires
        forall|i: int| 0 <= i < items@.len() ==> call_requires(f, (&#[trigger] items@[i],)),
        forall|i: int, out: bool| 0 <= i < items@.len() && #[trigger] call_ensures(f, (&items@[i],), out) ==> out == g(items@[i]),
    ensures
        r@.len() <= items@.len(), r@ =~= items@.subrange(items@.len() - r@.len(), items@.len() as int),
        forall|i: int| 0 <= i < items@.len() - r@.len() ==> g(#[trigger] items@[i]),
        r@.len() > 0 ==> !g(r@[0]),
{ items.into_iter().skip_while(f).collect() }
#[verifier::external_body]
pub fn concat4(a: Vec<Token>, b: Vec<Token>, c: Vec<Token>, d: Token) -> (r: Vec<Token>)
    ensures r@ == a@ + b@ + c@ + seq![d],
{ let mut r = a; r.extend(b); r.extend(c); r.push(d); r } // `[a, b, c, vec![d]].concat()` needs `Token: Clone`, and the derives are dropped in this unit (R3)
#[verifier::external_body]
pub fn string_len(s: &String) -> (n: usize)
    ensures n == byte_len(s@),
{ s.len() }
pub uninterp spec fn byte_len(s: Seq<char>) -> nat;
/// R16: stands for the re-lexing of `new_text[reanalysis_start..]` up to the first reproduced reusable token. Nothing is known about its result.
#[verifier::external_body]
pub fn relex(new_text: &str, reanalysis_start: usize, reusable_tokens: &Vec<Token>) -> (r: Vec<Token>)
{ unimplemented!() }

/// the value `look_ahead` returns for a kind (it reads nothing else); bounded in unit `window`
pub uninterp spec fn la_of(t: TokenType) -> int;
//~assume `TokenType::look_ahead` is a function of the kind (named `la_of`) with `needed_la <= la_of <= 1`: these bounds are the obligations look_ahead::covers_maximal_munch / at_most_one of unit `window`, restated here as an axiom about the name
#[verifier::external_body]
pub proof fn lemma_la_bounds(t: TokenType)
    ensures needed_la(t) <= la_of(t) <= 1,
{ }
//@extract spl_frontend/src/tokens.rs :: impl TokenType :: fn look_ahead
//@ ret la
//@ sig
        ensures la == la_of(*self),
//@ assume_body fn look_ahead
//@end
pub open spec fn affected(t: Token, index: usize) -> bool { t.range.end + la_of(t.token_type) > index }
//@extract spl_frontend/src/tokens.rs :: impl Token :: fn is_affected_by
//@ ret b
//@ rewrite usize_from_u8
//@ attr
    pub open spec fn spec_is_affected_by(&self, index: usize) -> bool { affected(*self, index) }
    #[verifier::when_used_as_spec(spec_is_affected_by)]
//@ sig
        requires self.range.end < usize::MAX,
        ensures b == affected(*self, index),
//@ before "self.range.end"
proof { lemma_la_bounds(self.token_type); }
        
//@end
//@extract spl_frontend/src/tokens.rs :: impl TokenChange :: fn new
//@ ret tc
//@ sig
        ensures tc.deletion_range == deletion_range && tc.insertion_len == insertion_len,
//@end

// ---------- lexer::update
pub open spec fn delta(change: TextChange) -> int { byte_len(change.text@) - (change.range.end - change.range.start) }
/// sizes: everything `update` passes through `isize` fits, before and after the shift
#[verifier::opaque]
pub open spec fn sizes_fit(ts: Seq<Token>, change: TextChange) -> bool {
    &&& byte_len(change.text@) <= isize::MAX && change.range.end <= isize::MAX
    &&& forall|i: int| 0 <= i < ts.len() ==> (#[trigger] ts[i]).range.end + byte_len(change.text@) <= isize::MAX
    &&& forall|i: int, k: int| 0 <= i < ts.len() && 0 <= k < ts[i].errors@.len() ==> (#[trigger] ts[i].errors@[k]).0.end + byte_len(change.text@) <= isize::MAX
}
pub open spec fn split_at_first_false(ts: Seq<Token>, g: spec_fn(Token) -> bool, h: spec_fn(Token) -> bool, n: nat) -> bool {
    let k = filter_tokens(ts, g, n).len();
    &&& k <= n
    &&& filter_tokens(ts, g, n) =~= ts.subrange(0, k as int)
    &&& filter_tokens(ts, h, n) =~= ts.subrange(k as int, n as int)
    &&& forall|i: int| 0 <= i < k ==> g(ts[i])
    &&& forall|i: int| k <= i < n ==> !g(ts[i])
}
/// a predicate that, once false, stays false along the sequence splits it into a prefix and the rest
pub proof fn lemma_partition_prefix(ts: Seq<Token>, g: spec_fn(Token) -> bool, h: spec_fn(Token) -> bool, n: nat)
    requires
        n <= ts.len(),
        forall|t: Token| #[trigger] h(t) == !g(t),
        forall|i: int, j: int| 0 <= i < j < ts.len() && g(ts[j]) ==> g(ts[i]),
    ensures split_at_first_false(ts, g, h, n), //# lemma_partition_prefix
    decreases n
{
    if n > 0 {
        lemma_partition_prefix(ts, g, h, (n - 1) as nat);
        let k0 = filter_tokens(ts, g, (n - 1) as nat).len();
        if g(ts[n - 1]) {
            if k0 < n - 1 { assert(!g(ts[k0 as int])); assert(g(ts[k0 as int])); }
            assert(h(ts[n - 1]) == !g(ts[n - 1]));
        } else {
            assert(h(ts[n - 1]) == !g(ts[n - 1]));
        }
    }
}

/// tokens that the edit cannot reach form a prefix: once a token is affected, every later one is
pub proof fn lemma_unaffected_prefix(olds: Seq<Token>, index: usize)
    requires ordered(olds),
    ensures forall|i: int, j: int| 0 <= i < j < olds.len() && !affected(olds[j], index) ==> !affected(olds[i], index), //# lemma_unaffected_prefix
{
    reveal(ordered);
    assert forall|i: int, j: int| 0 <= i < j < olds.len() && !affected(olds[j], index) implies !affected(olds[i], index) by {
        lemma_la_bounds(olds[i].token_type);
        lemma_la_bounds(olds[j].token_type);
    }
}
pub proof fn lemma_starts_prefix(olds: Seq<Token>, e: usize)
    requires ordered(olds),
    ensures forall|i: int, j: int| 0 <= i < j < olds.len() && olds[j].range.start < e ==> olds[i].range.start < e, //# lemma_starts_prefix
{
    reveal(ordered);
}
/// a token behind the edit can be moved by the length difference without leaving `isize`
pub proof fn lemma_fits(olds: Seq<Token>, change: TextChange, i: int)
    requires
        sizes_fit(olds, change), 0 <= i < olds.len(), errors_inside(olds[i]),
        change.range.start <= change.range.end <= olds[i].range.start, ordered(olds),
    ensures
        range_fits_i(olds[i].range, delta(change)) && errs_fit_i(olds[i].errors@, delta(change)), //# lemma_fits
        -isize::MAX <= delta(change) <= isize::MAX,
{
    reveal(ordered);
    reveal(sizes_fit);
    assert forall|k: int| 0 <= k < olds[i].errors@.len() implies range_fits_i((#[trigger] olds[i].errors@[k]).0, delta(change)) by { }
}
pub proof fn lemma_sizes(olds: Seq<Token>, change: TextChange, i: int)
    requires sizes_fit(olds, change), 0 <= i < olds.len(),
    ensures byte_len(change.text@) <= isize::MAX, change.range.end <= isize::MAX, olds[i].range.end < usize::MAX,
{ reveal(sizes_fit); }
pub proof fn lemma_out_of_reach(t: Token, index: usize)
    requires !affected(t, index),
    ensures t.range.end + needed_la(t.token_type) <= index, //# lemma_out_of_reach
{ lemma_la_bounds(t.token_type); }

/// the window arithmetic at the end of `update`, over plain sequences: the head is the first k1 old tokens, the reusable tokens are the last rl
/// old tokens before end-of-file, moved by d; the tail is the last tl of those
pub proof fn lemma_window(olds: Seq<Token>, k1: int, rl: int, reusable_new: Seq<Token>, tl: int, relexed: Seq<Token>, eof_new: Token, d: int, stream: Seq<Token>, tc: &TokenChange)
    requires
        olds.len() > 0, 0 <= k1, 0 <= tl <= rl, k1 + rl <= olds.len() - 1, reusable_new.len() == rl,
        forall|j: int| 0 <= j < rl ==> token_moved(olds[olds.len() - 1 - rl + j], d, #[trigger] reusable_new[j]),
        token_moved(olds[olds.len() - 1], d, eof_new),
        stream =~= olds.subrange(0, k1) + relexed + reusable_new.subrange(rl - tl, rl) + seq![eof_new],
        tc.deletion_range.start == k1, tc.deletion_range.end == olds.len() - 1 - tl, tc.insertion_len == relexed.len(),
    ensures
        stream.len() == olds.len() - (tc.deletion_range.end - tc.deletion_range.start) + tc.insertion_len,
        forall|i: int| 0 <= i < tc.deletion_range.start ==> stream[i] == olds[i],
        forall|i: int| tc.deletion_range.end <= i < olds.len() ==> token_moved(#[trigger] olds[i], d, stream[new_pos(tc, i)]), //# lemma_window
{
    assert forall|i: int| tc.deletion_range.end <= i < olds.len() implies token_moved(#[trigger] olds[i], d, stream[new_pos(tc, i)]) by {
        let m = i - tc.deletion_range.end;
        assert(new_pos(tc, i) == k1 + relexed.len() + m);
        if i < olds.len() - 1 {
            assert(stream[k1 + relexed.len() + m] == reusable_new.subrange(rl - tl, rl)[m]);
            assert(reusable_new.subrange(rl - tl, rl)[m] == reusable_new[rl - tl + m]);
            assert(olds.len() - 1 - rl + (rl - tl + m) == i);
        } else {
            assert(stream[k1 + relexed.len() + tl] == eof_new);
        }
    }
}

//@extract spl_frontend/src/lexer.rs :: fn update
//@ rewrite relex_opaque skip_while_collect map_collect partition_collect map_inline change_text_len change_range_len usize_to_isize_expect array_concat4
//@ ret r
//@ sig
    requires
        tokens@.len() > 0, tokens@.last().token_type is Eof,
        ordered(tokens@), all_errors_inside(tokens@),
        change.range.start <= change.range.end <= tokens@.last().range.start,
        sizes_fit(tokens@, *change),
    ensures
        r.1.deletion_range.start <= r.1.deletion_range.end <= tokens@.len() - 1, //# update::window_inside_the_old_tokens
        r.0@.len() == tokens@.len() - (r.1.deletion_range.end - r.1.deletion_range.start) + r.1.insertion_len, //# update::stream_length_matches_the_window
        forall|i: int| 0 <= i < r.1.deletion_range.start ==> r.0@[i] == tokens@[i], //# update::tokens_before_the_window_are_the_old_ones_untouched
        forall|i: int| 0 <= i < r.1.deletion_range.start ==> (#[trigger] tokens@[i]).range.end + needed_la(tokens@[i].token_type) <= change.range.start, //# update::tokens_before_the_window_are_out_of_reach_of_the_edit
        forall|i: int| r.1.deletion_range.end <= i < tokens@.len() - 1 ==> (#[trigger] tokens@[i]).range.start >= change.range.end, //# update::tokens_behind_the_window_lie_behind_the_edit
        forall|i: int| r.1.deletion_range.end <= i < tokens@.len() ==> token_moved(#[trigger] tokens@[i], delta(*change), r.0@[new_pos(&r.1, i)]), //# update::tokens_behind_the_window_are_the_old_ones_shifted_by_the_length_difference
//@ sig fn shift_token
        requires range_fits_i(token.range, offset as int), errs_fit_i(token.errors@, offset as int),
        ensures token_moved(token, offset as int, r),
//@ ret r fn shift_token
//@ assume_body fn shift_token
//@ closure |token| nth 0 of 4 : &Token
 -> (b: bool)
            requires token.range.end < usize::MAX,
            ensures b == $CLOSURE(|token| 0/4)
//@ after_closure |token| nth 0 of 4
, Ghost(g1)
//@ closure |token| nth 1 of 4 : &Token
 -> (b: bool)
            ensures b == $CLOSURE(|token| 1/4)
//@ after_closure |token| nth 1 of 4
, Ghost(g2)
//@ closure |token| nth 2 of 4 : Token
 -> (r: Token)
            requires range_fits_i(token.range, offset as int), errs_fit_i(token.errors@, offset as int),
            ensures token_moved(token, offset as int, r)
//@ closure |token| nth 3 of 4 : &Token
 -> (b: bool)
            ensures b == $CLOSURE(|token| 3/4)
//@ after_closure |token| nth 3 of 4
, Ghost(|t_: Token| { let token = &t_; $CLOSURE(|token| 3/4) })
//@ before "let offset: isize = {"
let ghost olds = tokens@;
    proof {
        lemma_errors_inside_at(olds, olds.len() - 1);
        lemma_fits(olds, *change, olds.len() - 1);
        lemma_sizes(olds, *change, olds.len() - 1);
        assert forall|t: TokenType| needed_la(t) <= #[trigger] la_of(t) <= 1 by { lemma_la_bounds(t); }
    }
    
//@ before "let eof = match tokens.pop()"
proof { assert(offset == delta(*change)); }
    
//@ before "let token_length = tokens.len();"
let ghost body = tokens@;
    // what the code's first partition predicate says, as a specification function (taken from the closure as written)
    let ghost g1 = |t_: Token| { let token = &t_; $CLOSURE(|token| 0/4) };
    proof {
        assert(body =~= olds.drop_last());
        assert forall|i: int| 0 <= i < body.len() implies (#[trigger] body[i]).range.end < usize::MAX by { assert(body[i] == olds[i]); lemma_sizes(olds, *change, i); }
    }
    
//@ before "let (_, reusable_tokens)"
let ghost aff = tokens@;
    let ghost k1 = unaffected_head@.len();
    // the second partition predicate as written
    let ghost g2 = |t_: Token| { let token = &t_; $CLOSURE(|token| 1/4) };
    proof {
        assert(k1 <= body.len() && unaffected_head@ == olds.subrange(0, k1 as int) && aff == olds.subrange(k1 as int, olds.len() - 1)
            && (forall|i: int| 0 <= i < k1 ==> g1(#[trigger] olds[i]))) by {
            assert forall|i: int, j: int| 0 <= i < j < body.len() && g1(body[j]) implies g1(body[i]) by {
                lemma_ordered_at(olds, i, j);
                assert(body[i] == olds[i] && body[j] == olds[j]);
            }
            lemma_partition_prefix(body, g1, |t: Token| !g1(t), body.len());
            assert(unaffected_head@ =~= body.subrange(0, k1 as int));
            assert(unaffected_head@ =~= olds.subrange(0, k1 as int));
            assert(aff =~= body.subrange(k1 as int, body.len() as int));
            assert(aff =~= olds.subrange(k1 as int, olds.len() - 1));
            assert forall|i: int| 0 <= i < k1 implies g1(#[trigger] olds[i]) by { assert(body[i] == olds[i]); }
        }
    }
    
//@ before "let reusable_tokens: Vec<Token> = vec_map_collect"
let ghost reusable_old = reusable_tokens@;
    let ghost k2 = aff.len() - reusable_old.len();
    proof {
        assert(0 <= k2 && reusable_old == olds.subrange(k1 + k2, olds.len() - 1)
            && (forall|i: int| k1 + k2 <= i < olds.len() - 1 ==> !g2(#[trigger] olds[i]))) by {
            assert forall|i: int, j: int| 0 <= i < j < aff.len() && g2(aff[j]) implies g2(aff[i]) by {
                lemma_ordered_at(olds, k1 + i, k1 + j);
                assert(aff[i] == olds[k1 + i] && aff[j] == olds[k1 + j]);
            }
            lemma_partition_prefix(aff, g2, |t: Token| !g2(t), aff.len());
            assert(reusable_old =~= aff.subrange(k2 as int, aff.len() as int));
            assert(reusable_old =~= olds.subrange(k1 + k2, olds.len() - 1));
            assert forall|i: int| k1 + k2 <= i < olds.len() - 1 implies !g2(#[trigger] olds[i]) by {
                assert(olds[i] == aff[i - k1]);
            }
        }
        assert forall|i: int| 0 <= i < reusable_old.len() implies range_fits_i((#[trigger] reusable_old[i]).range, offset as int) && errs_fit_i(reusable_old[i].errors@, offset as int) by {
            assert(reusable_old[i] == olds[k1 + k2 + i]);
            assert(!g2(olds[k1 + k2 + i]));
            lemma_errors_inside_at(olds, k1 + k2 + i);
            lemma_fits(olds, *change, k1 + k2 + i);
        }
    }
    
//@ before "let reanalysis_start"
let ghost reusable_new = reusable_tokens@;
    
//@ before "let new_tokens = concat4"
let ghost relexed = new_tokens@;
    let ghost tail = unaffected_tail@;
    let ghost head = unaffected_head@;
    proof {
        assert(tail == reusable_new.subrange(reusable_new.len() - tail.len(), reusable_new.len() as int)) by {
            assert(tail =~= reusable_new.subrange(reusable_new.len() - tail.len(), reusable_new.len() as int));
        }
    }
    
//@ before "(new_tokens, token_change)"
proof {
        let rl = reusable_old.len() as int;
        assert forall|j: int| 0 <= j < rl implies token_moved(olds[olds.len() - 1 - rl + j], delta(*change), #[trigger] reusable_new[j]) by {
            assert(reusable_old[j] == olds[k1 + k2 + j]);
        }
        lemma_window(olds, k1 as int, rl, reusable_new, tail.len() as int, relexed, eof, delta(*change), new_tokens@, &token_change);
    }
    
//@end
//~assume the re-lexed tokens (`relex`, R16) are unconstrained: `update(..).0 == lex(new_text)` is NOT decided here, only that whatever is re-lexed is framed by untouched and shifted old tokens and described by a truthful window
//~assume the token sequence handed to `update` is a lexer result: ends with Eof, ordered and non-overlapping, lexical errors inside their tokens, everything below isize::MAX after the edit; the change range lies on the old text (C06 / C08; nom lexer out of reach)
//~not_decided that `&new_text[reanalysis_start..]` is on a character boundary (dropped with the nom chain, R16)
pub proof fn witness_relex() {
    reveal(ordered);
    assert(ordered(Seq::<Token>::empty()));
    let r: Range<usize> = 4usize..6usize;
    assert(range_fits_i(r, -3));
}
}
fn main() {}
