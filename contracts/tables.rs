// unit `tables` — C06: the lexeme of every fixed token is the one of the SPL lexical grammar; symbols and keywords are disjoint;
use vstd::prelude::*;
use std::ops::Range;
verus! {
//@include shims.rs
//@include types_error.rs
//@include types_tokens.rs

//@extract spl_frontend/src/tokens.rs :: const LPAREN
//@ rewrite static_str_const
//@end
//@extract spl_frontend/src/tokens.rs :: const RPAREN
//@ rewrite static_str_const
//@end
//@extract spl_frontend/src/tokens.rs :: const LBRACKET
//@ rewrite static_str_const
//@end
//@extract spl_frontend/src/tokens.rs :: const RBRACKET
//@ rewrite static_str_const
//@end
//@extract spl_frontend/src/tokens.rs :: const LCURLY
//@ rewrite static_str_const
//@end
//@extract spl_frontend/src/tokens.rs :: const RCURLY
//@ rewrite static_str_const
//@end
//@extract spl_frontend/src/tokens.rs :: const EQ
//@ rewrite static_str_const
//@end
//@extract spl_frontend/src/tokens.rs :: const NEQ
//@ rewrite static_str_const
//@end
//@extract spl_frontend/src/tokens.rs :: const LT
//@ rewrite static_str_const
//@end
//@extract spl_frontend/src/tokens.rs :: const LE
//@ rewrite static_str_const
//@end
//@extract spl_frontend/src/tokens.rs :: const GT
//@ rewrite static_str_const
//@end
//@extract spl_frontend/src/tokens.rs :: const GE
//@ rewrite static_str_const
//@end
//@extract spl_frontend/src/tokens.rs :: const ASSIGN
//@ rewrite static_str_const
//@end
//@extract spl_frontend/src/tokens.rs :: const COLON
//@ rewrite static_str_const
//@end
//@extract spl_frontend/src/tokens.rs :: const COMMA
//@ rewrite static_str_const
//@end
//@extract spl_frontend/src/tokens.rs :: const SEMIC
//@ rewrite static_str_const
//@end
//@extract spl_frontend/src/tokens.rs :: const PLUS
//@ rewrite static_str_const
//@end
//@extract spl_frontend/src/tokens.rs :: const MINUS
//@ rewrite static_str_const
//@end
//@extract spl_frontend/src/tokens.rs :: const TIMES
//@ rewrite static_str_const
//@end
//@extract spl_frontend/src/tokens.rs :: const DIVIDE
//@ rewrite static_str_const
//@end
//@extract spl_frontend/src/tokens.rs :: const IF
//@ rewrite static_str_const
//@end
//@extract spl_frontend/src/tokens.rs :: const ELSE
//@ rewrite static_str_const
//@end
//@extract spl_frontend/src/tokens.rs :: const WHILE
//@ rewrite static_str_const
//@end
//@extract spl_frontend/src/tokens.rs :: const ARRAY
//@ rewrite static_str_const
//@end
//@extract spl_frontend/src/tokens.rs :: const OF
//@ rewrite static_str_const
//@end
//@extract spl_frontend/src/tokens.rs :: const PROC
//@ rewrite static_str_const
//@end
//@extract spl_frontend/src/tokens.rs :: const REF
//@ rewrite static_str_const
//@end
//@extract spl_frontend/src/tokens.rs :: const TYPE
//@ rewrite static_str_const
//@end
//@extract spl_frontend/src/tokens.rs :: const VAR
//@ rewrite static_str_const
//@end

// ---------- the SPL lexical grammar (language definition / editors/nvim/tree-sitter-spl/grammar.js), not the code
pub open spec fn lexeme(t: TokenType) -> Option<Seq<char>> {
    match t {
        TokenType::LParen => Some(seq!['(']), TokenType::RParen => Some(seq![')']), TokenType::LBracket => Some(seq!['[']), TokenType::RBracket => Some(seq![']']),
        TokenType::LCurly => Some(seq!['{']), TokenType::RCurly => Some(seq!['}']), TokenType::Eq => Some(seq!['=']), TokenType::Neq => Some(seq!['#']),
        TokenType::Lt => Some(seq!['<']), TokenType::Le => Some(seq!['<','=']), TokenType::Gt => Some(seq!['>']), TokenType::Ge => Some(seq!['>','=']),
        TokenType::Assign => Some(seq![':','=']), TokenType::Colon => Some(seq![':']), TokenType::Comma => Some(seq![',']), TokenType::Semic => Some(seq![';']),
        TokenType::Plus => Some(seq!['+']), TokenType::Minus => Some(seq!['-']), TokenType::Times => Some(seq!['*']), TokenType::Divide => Some(seq!['/']),
        TokenType::If => Some(seq!['i','f']), TokenType::Else => Some(seq!['e','l','s','e']), TokenType::While => Some(seq!['w','h','i','l','e']),
        TokenType::Array => Some(seq!['a','r','r','a','y']), TokenType::Of => Some(seq!['o','f']), TokenType::Proc => Some(seq!['p','r','o','c']),
        TokenType::Ref => Some(seq!['r','e','f']), TokenType::Type => Some(seq!['t','y','p','e']), TokenType::Var => Some(seq!['v','a','r']),
        TokenType::Eof => Some(Seq::empty()),
        _ => None,
    }
}
pub open spec fn symbol_kind(t: TokenType) -> bool {
    t is LParen || t is RParen || t is LBracket || t is RBracket || t is LCurly || t is RCurly || t is Eq || t is Neq || t is Lt || t is Le
    || t is Gt || t is Ge || t is Assign || t is Colon || t is Comma || t is Semic || t is Plus || t is Minus || t is Times || t is Divide
}
pub open spec fn keyword_kind(t: TokenType) -> bool {
    t is If || t is Else || t is While || t is Array || t is Of || t is Proc || t is Ref || t is Type || t is Var
}

//@extract spl_frontend/src/tokens.rs :: impl TokenType :: fn is_symbol
//@ ret b
//@ sig
        ensures b == symbol_kind(*self), //# is_symbol::the_twenty_symbols
//@end
//@extract spl_frontend/src/tokens.rs :: impl TokenType :: fn is_keyword
//@ ret b
//@ sig
        ensures b == keyword_kind(*self), //# is_keyword::the_nine_keywords
//@end
//@extract spl_frontend/src/tokens.rs :: impl TokenType :: fn as_static_str
//@ ret r
//@ sig
        ensures
            (r is Some) == (lexeme(*self) is Some), //# as_static_str::fixed_tokens_have_a_lexeme
            r is Some ==> r->0@ == lexeme(*self)->0, //# as_static_str::lexeme_of_the_grammar
//@ before "use TokenType::*;"
proof {
            reveal_strlit("("); reveal_strlit(")"); reveal_strlit("["); reveal_strlit("]"); reveal_strlit("{"); reveal_strlit("}");
            reveal_strlit("="); reveal_strlit("#"); reveal_strlit("<"); reveal_strlit("<="); reveal_strlit(">"); reveal_strlit(">=");
            reveal_strlit(":="); reveal_strlit(":"); reveal_strlit(","); reveal_strlit(";"); reveal_strlit("+"); reveal_strlit("-");
            reveal_strlit("*"); reveal_strlit("/"); reveal_strlit("if"); reveal_strlit("else"); reveal_strlit("while"); reveal_strlit("array");
            reveal_strlit("of"); reveal_strlit("proc"); reveal_strlit("ref"); reveal_strlit("type"); reveal_strlit("var"); reveal_strlit("");
        }
        
//@end

/// every symbol and every keyword has a lexeme; literals, comments and unknown characters have none; no kind is both
pub proof fn lemma_kinds(t: TokenType)
    ensures
        symbol_kind(t) || keyword_kind(t) ==> lexeme(t) is Some, //# lemma_kinds::symbols_and_keywords_have_lexemes
        !(symbol_kind(t) && keyword_kind(t)), //# lemma_kinds::disjoint
        (t is Ident || t is Char || t is Int || t is Hex || t is Comment || t is Unknown) ==> lexeme(t) is None, //# lemma_kinds::literals_have_none
{ }

//~not_decided tiling, longest match, literal values, comments: all inside the nom parsers of lexer.rs (Token::lex and friends)
pub proof fn witness_tables() {
    assert(lexeme(TokenType::Le) == Some(seq!['<', '=']));
}
}
fn main() {}
