// unit `rules` — C03(c): the operator, assignment, condition and indexing type rules of SPL fire exactly when violated,
// once, on the offending node, and nothing else in the tree changes.  Expression / statement trees of unbounded depth.
use vstd::prelude::*;
use std::ops::Range;
use std::ops::{Deref, DerefMut};
use std::cmp::Ordering;
use std::collections::HashMap;
use std::fmt::Debug;
verus! {
//@include shims.rs
//@include types_error.rs
//@include types_ast.rs
//@include inc_reference.rs
#[verifier::external_body]
pub fn string_clone(s: &String) -> (r: String)
    ensures r@ == s@,
{ s.clone() }

//~assume Range<usize>::clone returns an equal range (assume_specification through vstd's `cloned`)
pub assume_specification<Idx: Clone> [<Range<Idx> as Clone>::clone] (r: &Range<Idx>) -> (c: Range<Idx>)
    ensures cloned(r.start, c.start), cloned(r.end, c.end);

// ---------- the symbol table (shared with unit `decls`): entry types verbatim, HashMap tables opaque, scoping = local before global
//@include inc_symtab.rs
//~assume derived PartialEq for DataType is structural equality (R1; name equivalence of arrays = equal `creator`)
impl PartialEq for DataType {
    #[verifier::external_body]
    fn eq(&self, other: &Self) -> (r: bool)
        ensures r == (*self == *other),
    { unimplemented!() }
}

//@extract spl_frontend/src/error.rs :: impl From<SemanticErrorMessage> for ErrorMessage
//@end
impl vstd::std_specs::convert::FromSpecImpl<SemanticErrorMessage> for ErrorMessage {
    open spec fn obeys_from_spec() -> bool { true }
    open spec fn from_spec(v: SemanticErrorMessage) -> ErrorMessage { ErrorMessage::SemanticErrorMessage(v) }
}

// ---------- helper code of ast.rs used by the rules
pub trait ToRange {
    spec fn range_spec(&self) -> Range<usize>;
    fn to_range(&self) -> (r: Range<usize>)
        ensures r == self.range_spec();
}
//@extract spl_frontend/src/ast.rs :: impl ToRange for AstInfo
//@ open
    open spec fn range_spec(&self) -> Range<usize> { self.range }
//@end
//@extract spl_frontend/src/ast.rs :: derive ToRange :: struct BinaryExpression
//@ open
    open spec fn range_spec(&self) -> Range<usize> { self.info.range }
//@end
//@extract spl_frontend/src/ast.rs :: derive ToRange :: struct Assignment
//@ open
    open spec fn range_spec(&self) -> Range<usize> { self.info.range }
//@end
//@extract spl_frontend/src/ast.rs :: derive ToRange :: struct ArrayAccess
//@ open
    open spec fn range_spec(&self) -> Range<usize> { self.info.range }
//@end
//@extract spl_frontend/src/ast.rs :: derive ToRange :: struct IntLiteral
//@ open
    open spec fn range_spec(&self) -> Range<usize> { self.info.range }
//@end
//@extract spl_frontend/src/ast.rs :: derive ToRange :: struct Identifier
//@ open
    open spec fn range_spec(&self) -> Range<usize> { self.info.range }
//@end
//@extract spl_frontend/src/ast.rs :: derive ToRange :: struct BracketedExpression
//@ open
    open spec fn range_spec(&self) -> Range<usize> { self.info.range }
//@end
//@extract spl_frontend/src/ast.rs :: derive ToRange :: struct UnaryExpression
//@ open
    open spec fn range_spec(&self) -> Range<usize> { self.info.range }
//@end
//@extract spl_frontend/src/ast.rs :: derive ToRange :: enum Variable
//@ open
    open spec fn range_spec(&self) -> Range<usize> { var_info(*self).range }
//@end
//@extract spl_frontend/src/ast.rs :: derive ToRange :: enum Expression
//@ open
    open spec fn range_spec(&self) -> Range<usize> { expr_info(*self).range }
//@end
//@extract spl_frontend/src/ast.rs :: impl AstInfo :: fn append_error
//@ sig
        ensures final(self).range == old(self).range && final(self).errors@ == old(self).errors@.push(error),
//@end
//@extract spl_frontend/src/ast.rs :: impl Operator :: fn is_arithmetic
//@ ret b
//@ sig
        ensures b == arith(*self), //# Operator::is_arithmetic::plus_minus_times_divide
//@end
//@extract spl_frontend/src/ast.rs :: impl<T> DerefMut for Reference<T>
//@ ret r fn deref_mut
//@ sig fn deref_mut
        ensures *r == old(self).reference, final(self).offset == old(self).offset, final(self).reference == *final(r),
//@end
//@extract spl_frontend/src/ast.rs :: impl<T> AsRef<T> for Reference<T>
//@ ret r fn as_ref
//@ sig fn as_ref
        ensures *r == self.reference,
//@end

/// the AstInfo a diagnostic about an expression is attached to
pub open spec fn var_info(v: Variable) -> AstInfo {
    match v { Variable::ArrayAccess(a) => a.info, Variable::NamedVariable(n) => n.info }
}
pub open spec fn expr_info(e: Expression) -> AstInfo {
    match e {
        Expression::Binary(b) => b.info,
        Expression::Bracketed(b) => b.info,
        Expression::Error(i) => i,
        Expression::Unary(u) => u.info,
        Expression::IntLiteral(i) => i.info,
        Expression::Variable(v) => var_info(v),
    }
}
/// the same expression with another AstInfo at its root
pub open spec fn with_info(e: Expression, i: AstInfo) -> Expression {
    match e {
        Expression::Binary(b) => Expression::Binary(BinaryExpression { operator: b.operator, lhs: b.lhs, rhs: b.rhs, info: i }),
        Expression::Bracketed(b) => Expression::Bracketed(BracketedExpression { expr: b.expr, info: i }),
        Expression::Error(_) => Expression::Error(i),
        Expression::Unary(u) => Expression::Unary(UnaryExpression { operator: u.operator, expr: u.expr, info: i }),
        Expression::IntLiteral(l) => Expression::IntLiteral(IntLiteral { value: l.value, info: i }),
        Expression::Variable(v) => Expression::Variable(match v {
            Variable::ArrayAccess(a) => Variable::ArrayAccess(ArrayAccess { array: a.array, index: a.index, info: i }),
            Variable::NamedVariable(n) => Variable::NamedVariable(Identifier { value: n.value, info: i }),
        }),
    }
}
//@extract spl_frontend/src/ast.rs :: impl Expression :: fn info_mut
//@ ret r
//@ sig
        ensures
            *r == expr_info(*old(self)), //# Expression::info_mut::root_info
            *final(self) == with_info(*old(self), *final(r)), //# Expression::info_mut::only_root_info_changes
//@end

// ---------------- specification, from the SPL typing rules (language definition), not from the code
pub open spec fn arith(op: Operator) -> bool { op is Add || op is Sub || op is Mul || op is Div }
/// type and effect of analysing a variable: needs the symbol table (HashMap) — abstract here, see assumptions
/// Variable rules: a name that the symbol table binds to a variable or parameter has that entry's type and gets no diagnostic;
/// a name bound to something else gets exactly one "is not a variable", an unbound name exactly one "undefined variable",
/// naming the identifier, on the identifier's own token (the last token of its range); it then has no type.
pub open spec fn named_type(v: Identifier, table: LookupTable) -> Option<DataType> {
    match lookup_spec(table, v.value@) {
        Some(Entry::Variable(e)) => e.data_type,
        Some(Entry::Parameter(e)) => e.data_type,
        _ => None,
    }
}
pub open spec fn is_not_a_variable(m: ErrorMessage, name: Seq<char>) -> bool {
    m matches ErrorMessage::SemanticErrorMessage(sm) && sm matches SemanticErrorMessage::NotAVariable(s) && s@ == name
}
pub open spec fn is_undefined_variable(m: ErrorMessage, name: Seq<char>) -> bool {
    m matches ErrorMessage::SemanticErrorMessage(sm) && sm matches SemanticErrorMessage::UndefinedVariable(s) && s@ == name
}
pub open spec fn named_rule_ok(entry: Option<Entry>, id: Identifier, errs: Seq<SplError>) -> bool {
    match entry {
        Some(Entry::Variable(_)) => errs.len() == 0,
        Some(Entry::Parameter(_)) => errs.len() == 0,
        Some(_) => errs.len() == 1 && errs[0].0.end == id.info.range.end && errs[0].0.start == id.info.range.end - 1 && is_not_a_variable(errs[0].1, id.value@),
        None => errs.len() == 1 && errs[0].0.end == id.info.range.end && errs[0].0.start == id.info.range.end - 1 && is_undefined_variable(errs[0].1, id.value@),
    }
}
pub open spec fn named_post(o: Identifier, n: Identifier, table: LookupTable) -> bool {
    n.value == o.value && n.info.errors@.len() >= o.info.errors@.len()
    && appended(o.info, n.info, n.info.errors@.len() - o.info.errors@.len())
    && named_rule_ok(lookup_spec(table, o.value@), o, tail(o.info, n.info))
}
/// data invariant: every identifier owns at least one token (Identifier::to_error asserts it); established by the parser
pub open spec fn var_wf(v: Variable) -> bool
    decreases v
{
    match v {
        Variable::NamedVariable(n) => n.info.range.end > 0,
        Variable::ArrayAccess(a) => var_wf(*a.array) && (match a.index { Some(ix) => expr_wf(ix.reference), None => true }),
    }
}
pub open spec fn expr_wf(e: Expression) -> bool
    decreases e
{
    match e {
        Expression::Binary(b) => expr_wf(*b.lhs) && expr_wf(*b.rhs),
        Expression::Bracketed(b) => expr_wf(*b.expr),
        Expression::Unary(u) => expr_wf(*u.expr),
        Expression::Variable(v) => var_wf(v),
        Expression::IntLiteral(_) => true,
        Expression::Error(_) => true,
    }
}
pub open spec fn var_type(v: Variable, table: LookupTable) -> Option<DataType>
    decreases v
{
    match v {
        Variable::NamedVariable(n) => named_type(n, table),
        // Indexing rule, type part: the element type of an array; anything else has no type
        Variable::ArrayAccess(a) => match var_type(*a.array, table) {
            Some(DataType::Array { size, base_type, creator }) => match base_type { Some(b) => Some(*b), None => None },
            _ => None,
        },
    }
}
/// Indexing rules: an index that has a type other than int gets exactly one "illegal indexing with a non-integer" on the
/// index expression; indexing something that has a type which is not an array gets exactly one "illegal indexing a
/// non-array" on the array access itself; nothing else.
pub open spec fn idx_rule_ok(t: Option<DataType>, range: Range<usize>, errs: Seq<SplError>) -> bool {
    if t is Some && !(t->0 is Int) { errs.len() == 1 && errs[0] == SplError(range, sem(SemanticErrorMessage::IndexingWithNonInteger)) } else { errs.len() == 0 }
}
pub open spec fn non_array_rule_ok(t: Option<DataType>, range: Range<usize>, errs: Seq<SplError>) -> bool {
    if t is Some && !(t->0 is Array) { errs.len() == 1 && errs[0] == SplError(range, sem(SemanticErrorMessage::IndexingNonArray)) } else { errs.len() == 0 }
}
pub open spec fn idx_mid(a: Expression, m: Expression, b: Expression, table: LookupTable) -> bool
    decreases a, 1nat
{
    &&& expr_post(a, m, table)
    &&& b == with_info(m, expr_info(b))
    &&& expr_info(b).errors@.len() >= expr_info(m).errors@.len()
    &&& appended(expr_info(m), expr_info(b), expr_info(b).errors@.len() - expr_info(m).errors@.len())
    &&& idx_rule_ok(expr_type(a, table), expr_info(m).range, tail(expr_info(m), expr_info(b)))
}
/// fuel-free trigger for the existential below (triggers inside a recursive group carry a fuel argument)
pub open spec fn wit(m: Expression) -> bool { true }
pub open spec fn idx_post(a: Expression, b: Expression, table: LookupTable) -> bool
    decreases a, 2nat
{ exists|m: Expression| #[trigger] wit(m) && idx_mid(a, m, b, table) }
pub open spec fn var_post(o: Variable, n: Variable, table: LookupTable) -> bool
    decreases o, 0nat
{
    match (o, n) {
        (Variable::NamedVariable(a), Variable::NamedVariable(b)) => named_post(a, b, table),
        (Variable::ArrayAccess(a), Variable::ArrayAccess(b)) => {
            &&& var_post(*a.array, *b.array, table)
            &&& match (a.index, b.index) {
                (Some(x), Some(y)) => x.offset == y.offset && idx_post(x.reference, y.reference, table),
                (None, None) => true,
                _ => false,
            }
            &&& b.info.errors@.len() >= a.info.errors@.len() && appended(a.info, b.info, b.info.errors@.len() - a.info.errors@.len())
            &&& non_array_rule_ok(var_type(*a.array, table), a.info.range, tail(a.info, b.info))
        },
        _ => false,
    }
}

pub open spec fn expr_type(e: Expression, table: LookupTable) -> Option<DataType>
    decreases e
{
    match e {
        Expression::IntLiteral(_) => Some(DataType::Int),
        Expression::Variable(v) => var_type(v, table),
        Expression::Binary(b) => Some(if arith(b.operator) { DataType::Int } else { DataType::Bool }),
        // the sign is an arithmetic operator: it yields an integer (no type if its operand has none)
        Expression::Unary(u) => match expr_type(*u.expr, table) { Some(_) => Some(DataType::Int), None => None },
        Expression::Bracketed(b) => expr_type(*b.expr, table),
        Expression::Error(_) => None,
    }
}
pub open spec fn sem(m: SemanticErrorMessage) -> ErrorMessage { ErrorMessage::SemanticErrorMessage(m) }
/// Operator rule: no diagnostic if an operand has no type (it already failed) or both are int; otherwise exactly one
/// diagnostic on the operator node's own range that names the rule: "combines different types" if exactly one side is
/// int; "arithmetic/comparison requires integer operands" by operator class if neither is (if the two non-int types
/// also differ, "combines different types" is accepted as well — the language definition allows either).
pub open spec fn op_rule_ok(lt: Option<DataType>, rt: Option<DataType>, op: Operator, range: Range<usize>, errs: Seq<SplError>) -> bool {
    if lt is None || rt is None || (lt->0 is Int && rt->0 is Int) { errs.len() == 0 }
    else {
        &&& errs.len() == 1
        &&& errs[0].0 == range
        &&& if lt->0 is Int || rt->0 is Int { errs[0].1 == sem(SemanticErrorMessage::OperatorDifferentTypes) }
            else {
                ||| errs[0].1 == sem(if arith(op) { SemanticErrorMessage::ArithmeticOperatorNonInteger } else { SemanticErrorMessage::ComparisonNonInteger })
                ||| (lt->0 != rt->0 && errs[0].1 == sem(SemanticErrorMessage::OperatorDifferentTypes))
            }
    }
}
/// Operator rule for the sign: an operand that has a type other than int gets exactly one "arithmetic operation requires integer operands" on the signed expression; nothing otherwise
pub open spec fn sign_rule_ok(t: Option<DataType>, range: Range<usize>, errs: Seq<SplError>) -> bool {
    if t is Some && !(t->0 is Int) { errs.len() == 1 && errs[0] == SplError(range, sem(SemanticErrorMessage::ArithmeticOperatorNonInteger)) } else { errs.len() == 0 }
}
/// `n` extends `o` by exactly the diagnostics `errs`
pub open spec fn appended(o: AstInfo, n: AstInfo, k: int) -> bool {
    n.range == o.range && n.errors@.len() == o.errors@.len() + k && n.errors@.subrange(0, o.errors@.len() as int) == o.errors@
}
pub open spec fn tail(o: AstInfo, n: AstInfo) -> Seq<SplError> {
    n.errors@.subrange(o.errors@.len() as int, n.errors@.len() as int)
}
pub open spec fn expr_post(o: Expression, n: Expression, table: LookupTable) -> bool
    decreases o, 0nat
{
    match (o, n) {
        (Expression::IntLiteral(a), Expression::IntLiteral(b)) => a == b,
        (Expression::Variable(a), Expression::Variable(b)) => var_post(a, b, table),
        (Expression::Binary(a), Expression::Binary(b)) => bin_post(a, b, table),
        (Expression::Unary(a), Expression::Unary(b)) => a.operator == b.operator && expr_post(*a.expr, *b.expr, table)
            && b.info.errors@.len() >= a.info.errors@.len() && appended(a.info, b.info, b.info.errors@.len() - a.info.errors@.len())
            && sign_rule_ok(expr_type(*a.expr, table), a.info.range, tail(a.info, b.info)),
        (Expression::Bracketed(a), Expression::Bracketed(b)) => a.info == b.info && expr_post(*a.expr, *b.expr, table),
        (Expression::Error(a), Expression::Error(b)) => a == b,
        _ => false,
    }
}
pub open spec fn bin_post(a: BinaryExpression, b: BinaryExpression, table: LookupTable) -> bool
    decreases a, 0nat
{
    &&& a.operator == b.operator
    &&& expr_post(*a.lhs, *b.lhs, table)
    &&& expr_post(*a.rhs, *b.rhs, table)
    &&& b.info.errors@.len() >= a.info.errors@.len() && appended(a.info, b.info, b.info.errors@.len() - a.info.errors@.len())
    &&& op_rule_ok(expr_type(*a.lhs, table), expr_type(*a.rhs, table), a.operator, a.info.range, tail(a.info, b.info))
}
/// Assignment rule: both sides typed and different -> "assignment has different types"; equal and not int ->
/// "assignment requires integer variable"; otherwise nothing; on the assignment's own range.
pub open spec fn asg_rule_ok(lt: Option<DataType>, rt: Option<DataType>, range: Range<usize>, errs: Seq<SplError>) -> bool {
    if lt is None || rt is None { errs.len() == 0 }
    else if lt->0 != rt->0 { errs.len() == 1 && errs[0] == SplError(range, sem(SemanticErrorMessage::AssignmentHasDifferentTypes)) }
    else if !(lt->0 is Int) { errs.len() == 1 && errs[0] == SplError(range, sem(SemanticErrorMessage::AssignmentRequiresIntegers)) }
    else { errs.len() == 0 }
}
pub open spec fn asg_post(a: Assignment, b: Assignment, table: LookupTable) -> bool {
    match (a.expr, b.expr) {
        (Some(ea), Some(eb)) => ea.offset == eb.offset && expr_post(ea.reference, eb.reference, table) && var_post(a.variable, b.variable, table)
            && b.info.errors@.len() >= a.info.errors@.len() && appended(a.info, b.info, b.info.errors@.len() - a.info.errors@.len())
            && asg_rule_ok(var_type(a.variable, table), expr_type(ea.reference, table), a.info.range, tail(a.info, b.info)),
        (None, None) => a.variable == b.variable && b.info == a.info,
        _ => false,
    }
}

// ---------- the traits with their contracts
//@extract spl_frontend/src/table/semantic.rs :: trait AnalyzeExpression
//@ after "trait AnalyzeExpression"
: Sized
//@ open
    /// the type SPL assigns to this expression (None: it has no type because it already failed)
    spec fn typ(&self, table: LookupTable) -> Option<DataType>;
    /// relation between the tree before and after analysis: exactly the prescribed diagnostics were appended
    spec fn post(o: Self, n: Self, table: LookupTable) -> bool;
    /// data invariant of the input tree (every identifier owns a token)
    spec fn pre(&self) -> bool;
//@ ret t fn analyze
//@ sig fn analyze
        requires old(self).pre(),
        ensures
            Self::post(*old(self), *final(self), *table), //# AnalyzeExpression::analyze::exactly_the_prescribed_diagnostics
            t == old(self).typ(*table), //# AnalyzeExpression::analyze::type_of_expression
//@end
//@extract spl_frontend/src/table/semantic.rs :: trait AnalyzeStatement
//@ after "trait AnalyzeStatement"
: Sized
//@ open
    spec fn post(o: Self, n: Self, table: LookupTable) -> bool;
    spec fn pre(&self) -> bool;
//@ sig fn analyze
        requires old(self).pre(),
        ensures
            Self::post(*old(self), *final(self), *table), //# AnalyzeStatement::analyze::exactly_the_prescribed_diagnostics
//@end

//@extract spl_frontend/src/error.rs :: impl Identifier :: fn to_error
//@ rewrite string_clone_self_value
//@ ret e
//@ sig
        requires self.info.range.end > 0, forall|s: String| call_requires(msg, (s,)),
        ensures
            e.0.end == self.info.range.end && e.0.start == self.info.range.end - 1, //# Identifier::to_error::on_the_name_token
            exists|s: String, t: T| s@ == self.value@ && call_ensures(msg, (s,), t) && call_ensures(<T as Into<ErrorMessage>>::into, (t,), e.1), //# Identifier::to_error::message_built_from_the_name
//@end
//@extract spl_frontend/src/table/semantic.rs :: impl AnalyzeExpression for Variable
//@ rewrite eta_expand_variant_ctor
//@ open
    open spec fn typ(&self, table: LookupTable) -> Option<DataType> { var_type(*self, table) }
    open spec fn post(o: Self, n: Self, table: LookupTable) -> bool { var_post(o, n, table) }
    open spec fn pre(&self) -> bool { var_wf(*self) }
//@ attr fn analyze
    #[verifier::exec_allows_no_decreases_clause]
//@ before "v.data_type.clone()"
{ proof {
                            let o = *old(self);
                            if let Variable::NamedVariable(on) = o {
                                assert(on.info.errors@.subrange(0, on.info.errors@.len() as int) =~= on.info.errors@);
                                assert(tail(on.info, on.info) =~= Seq::<SplError>::empty());
                            }
                        }
                        
//@ after "v.data_type.clone()"
 }
//@ before "None\n                        }"
proof {
                                let o = *old(self);
                                if let Variable::NamedVariable(on) = o {
                                    assert(named.info.errors@.subrange(0, on.info.errors@.len() as int) =~= on.info.errors@);
                                    assert(tail(on.info, named.info) =~= seq![named.info.errors@[on.info.errors@.len() as int]]);
                                }
                            }
                            
//@ before "None\n                }\n            }"
proof {
                        let o = *old(self);
                        if let Variable::NamedVariable(on) = o {
                            assert(named.info.errors@.subrange(0, on.info.errors@.len() as int) =~= on.info.errors@);
                            assert(tail(on.info, named.info) =~= seq![named.info.errors@[on.info.errors@.len() as int]]);
                        }
                    }
                    
//@end
//@extract spl_frontend/src/table/semantic.rs :: impl AnalyzeExpression for ArrayAccess
//@ rewrite as_ref_on_mut_box_reference and_then_inline map_inline
//@ open
    open spec fn typ(&self, table: LookupTable) -> Option<DataType> { var_type(Variable::ArrayAccess(*self), table) }
    open spec fn post(o: Self, n: Self, table: LookupTable) -> bool { var_post(Variable::ArrayAccess(o), Variable::ArrayAccess(n), table) }
    open spec fn pre(&self) -> bool { var_wf(Variable::ArrayAccess(*self)) }
//@ attr fn analyze
    #[verifier::exec_allows_no_decreases_clause]
//@ before "if let Some(index) = &mut self.index {"
let ghost mut mid: Option<Expression> = None;
        
//@ after "let index_type = index.analyze(table);"
            proof { mid = Some(index.reference); }
//@ before "(match self.array"
proof {
            let o = *old(self);
            if o.index is Some {
                let a = o.index->0.reference;
                let b = self.index->0.reference;
                let m = mid->0;
                assert(expr_info(b).errors@.subrange(0, expr_info(m).errors@.len() as int) =~= expr_info(m).errors@);
                if expr_info(b).errors@.len() == expr_info(m).errors@.len() + 1 {
                    assert(tail(expr_info(m), expr_info(b)) =~= seq![expr_info(b).errors@[expr_info(m).errors@.len() as int]]);
                } else {
                    assert(tail(expr_info(m), expr_info(b)) =~= Seq::<SplError>::empty());
                }
                assert(idx_mid(a, m, b, *table));
                assert(wit(m));
                assert(idx_post(a, b, *table));
            }
            assert(o.info.errors@.subrange(0, o.info.errors@.len() as int) =~= o.info.errors@);
            assert(tail(o.info, o.info) =~= Seq::<SplError>::empty());
        }
        
//@ before "None\n                }"
proof {
                        let o = *old(self);
                        assert(self.info.errors@.subrange(0, o.info.errors@.len() as int) =~= o.info.errors@);
                        assert(tail(o.info, self.info) =~= seq![self.info.errors@[o.info.errors@.len() as int]]);
                    }
                    
//@end
//@extract spl_frontend/src/table/semantic.rs :: impl AnalyzeExpression for Expression
//@ rewrite operand_ne_int map_inline
//@ open
    open spec fn typ(&self, table: LookupTable) -> Option<DataType> { expr_type(*self, table) }
    open spec fn post(o: Self, n: Self, table: LookupTable) -> bool { expr_post(o, n, table) }
    open spec fn pre(&self) -> bool { expr_wf(*self) }
//@ attr fn analyze
    #[verifier::exec_allows_no_decreases_clause]
//@ before "let operand_type = u.expr.analyze(table);"
let ghost ou = *u;
                
//@ before "(match operand_type { Some(_)"
proof {
                    assert(operand_type == expr_type(*ou.expr, *table));
                    assert(u.info.errors@.subrange(0, ou.info.errors@.len() as int) =~= ou.info.errors@);
                    if u.info.errors@.len() == ou.info.errors@.len() + 1 {
                        assert(tail(ou.info, u.info) =~= seq![u.info.errors@[ou.info.errors@.len() as int]]);
                    } else {
                        assert(tail(ou.info, u.info) =~= Seq::<SplError>::empty());
                    }
                }
                
//@end
//@extract spl_frontend/src/table/semantic.rs :: impl AnalyzeExpression for BinaryExpression
//@ open
    open spec fn typ(&self, table: LookupTable) -> Option<DataType> { Some(if arith(self.operator) { DataType::Int } else { DataType::Bool }) }
    open spec fn post(o: Self, n: Self, table: LookupTable) -> bool { bin_post(o, n, table) }
    open spec fn pre(&self) -> bool { expr_wf(Expression::Binary(*self)) }
//@ attr fn analyze
    #[verifier::exec_allows_no_decreases_clause]
//@ before "// Type is always inferable from operator."
proof {
            let o = *old(self);
            assert(lhs_type == expr_type(*o.lhs, *table));
            assert(rhs_type == expr_type(*o.rhs, *table));
            assert(self.info.errors@.subrange(0, o.info.errors@.len() as int) =~= o.info.errors@);
            if self.info.errors@.len() == o.info.errors@.len() + 1 {
                assert(tail(o.info, self.info) =~= seq![self.info.errors@[o.info.errors@.len() as int]]);
            } else {
                assert(tail(o.info, self.info) =~= Seq::<SplError>::empty());
            }
        }
//@end
//@extract spl_frontend/src/table/semantic.rs :: impl AnalyzeStatement for Assignment
//@ open
    open spec fn post(o: Self, n: Self, table: LookupTable) -> bool { asg_post(o, n, table) }
    open spec fn pre(&self) -> bool { stmt_wf(Statement::Assignment(*self)) }
//@ before "\n    }\n}"
        proof {
            let o = *old(self);
            if o.expr is Some {
                assert(self.info.errors@.subrange(0, o.info.errors@.len() as int) =~= o.info.errors@);
                if self.info.errors@.len() == o.info.errors@.len() + 1 {
                    assert(tail(o.info, self.info) =~= seq![self.info.errors@[o.info.errors@.len() as int]]);
                } else {
                    assert(tail(o.info, self.info) =~= Seq::<SplError>::empty());
                }
            }
        }
//@end

// ---------- second wave: condition rules of `if` / `while`, statement dispatch
/// Condition rule: a condition that has a type other than boolean gets exactly one diagnostic (naming `if` resp. `while`)
/// on the condition expression's own range; a boolean or untyped (already failed) condition gets none.
pub open spec fn cond_rule_ok(t: Option<DataType>, range: Range<usize>, msg: SemanticErrorMessage, errs: Seq<SplError>) -> bool {
    if t is Some && t->0 != DataType::Bool { errs.len() == 1 && errs[0] == SplError(range, sem(msg)) } else { errs.len() == 0 }
}
/// m is the condition after its own analysis, b after the condition rule was applied on top of it
pub open spec fn cond_mid(a: Expression, m: Expression, b: Expression, table: LookupTable, msg: SemanticErrorMessage) -> bool {
    &&& expr_post(a, m, table)
    &&& b == with_info(m, expr_info(b))
    &&& expr_info(b).errors@.len() >= expr_info(m).errors@.len()
    &&& appended(expr_info(m), expr_info(b), expr_info(b).errors@.len() - expr_info(m).errors@.len())
    &&& cond_rule_ok(expr_type(a, table), expr_info(m).range, msg, tail(expr_info(m), expr_info(b)))
}
pub open spec fn cond_post(ca: Option<Reference<Expression>>, cb: Option<Reference<Expression>>, table: LookupTable, msg: SemanticErrorMessage) -> bool {
    match (ca, cb) {
        (Some(a), Some(b)) => a.offset == b.offset && exists|m: Expression| cond_mid(a.reference, m, b.reference, table, msg),
        (None, None) => true,
        _ => false,
    }
}
pub fn datatype_eq(a: &DataType, b: &DataType) -> (r: bool)
    ensures r == (*a == *b),
{ *a == *b }
pub open spec fn is_must_be_variable(m: ErrorMessage, callee: Seq<char>, n: int) -> bool {
    m matches ErrorMessage::SemanticErrorMessage(sm) && sm matches SemanticErrorMessage::ArgumentMustBeAVariable(s, k) && s@ == callee && k == n
}
pub open spec fn is_type_mismatch(m: ErrorMessage, callee: Seq<char>, n: int) -> bool {
    m matches ErrorMessage::SemanticErrorMessage(sm) && sm matches SemanticErrorMessage::ArgumentsTypeMismatch(s, k) && s@ == callee && k == n
}
/// Reference-parameter rule: an argument for a `ref` parameter that is not a variable gets exactly one "argument must be a
/// variable" naming the callee and the 1-based argument position, on the argument's own range.
pub open spec fn must_be_var_ok(a: Expression, is_ref: bool, callee: Seq<char>, n: int, errs: Seq<SplError>) -> bool {
    if is_ref && !(a is Variable) { errs.len() == 1 && errs[0].0 == expr_info(a).range && is_must_be_variable(errs[0].1, callee, n) } else { errs.len() == 0 }
}
/// Argument type rule: if both the argument and the parameter have a type and they differ, exactly one "argument type
/// mismatch" naming the callee and the position, on the argument's own range; otherwise none.
pub open spec fn mismatch_ok(t: Option<DataType>, pt: Option<DataType>, range: Range<usize>, callee: Seq<char>, n: int, errs: Seq<SplError>) -> bool {
    if t is Some && pt is Some && t->0 != pt->0 { errs.len() == 1 && errs[0].0 == range && is_type_mismatch(errs[0].1, callee, n) } else { errs.len() == 0 }
}
pub open spec fn info_grew(o: AstInfo, n: AstInfo) -> bool {
    n.errors@.len() >= o.errors@.len() && appended(o, n, n.errors@.len() - o.errors@.len())
}
/// m1: the argument after the reference-parameter rule; m2: after its own analysis; b: after the type rule
pub open spec fn call_arg_mid(a: Expression, m1: Expression, m2: Expression, b: Expression, param: VariableEntry, callee: Seq<char>, n: int, table: LookupTable) -> bool {
    &&& m1 == with_info(a, expr_info(m1)) && info_grew(expr_info(a), expr_info(m1))
    &&& must_be_var_ok(a, param.is_ref, callee, n, tail(expr_info(a), expr_info(m1)))
    &&& expr_post(m1, m2, table)
    &&& b == with_info(m2, expr_info(b)) && info_grew(expr_info(m2), expr_info(b))
    &&& mismatch_ok(expr_type(m1, table), param.data_type, expr_info(a).range, callee, n, tail(expr_info(m2), expr_info(b)))
}
pub open spec fn wit2(a: Expression, b: Expression) -> bool { true }
/// every argument that has a parameter went through the per-argument rules; surplus arguments are untouched
pub open spec fn args_post(oa: Seq<Reference<Expression>>, na: Seq<Reference<Expression>>, params: Seq<VariableEntry>, callee: Seq<char>, table: LookupTable) -> bool {
    na.len() == oa.len() && forall|i: int| 0 <= i < oa.len() ==> (#[trigger] na[i]).offset == oa[i].offset
        && (if i < params.len() { exists|m1: Expression, m2: Expression| #[trigger] wit2(m1, m2) && call_arg_mid(oa[i].reference, m1, m2, na[i].reference, params[i], callee, i + 1, table) }
            else { na[i] == oa[i] })
}
pub open spec fn is_call_msg(m: ErrorMessage, kind: int, name: Seq<char>) -> bool {
    m matches ErrorMessage::SemanticErrorMessage(sm) && match sm {
        SemanticErrorMessage::UndefinedProcedure(s) => kind == 0 && s@ == name,
        SemanticErrorMessage::CallOfNoneProcedure(s) => kind == 1 && s@ == name,
        SemanticErrorMessage::TooFewArguments(s) => kind == 2 && s@ == name,
        SemanticErrorMessage::TooManyArguments(s) => kind == 3 && s@ == name,
        _ => false,
    }
}
/// Call rules: calling an unbound name gives exactly one "undefined procedure", calling something that is not a procedure
/// exactly one "call of non-procedure", fewer / more arguments than parameters exactly one "too few" / "too many arguments";
/// each names the callee and lies on the call statement's own range; an equal count gives none.
pub open spec fn call_rule_ok(entry: Option<Entry>, n_args: int, name: Seq<char>, range: Range<usize>, errs: Seq<SplError>) -> bool {
    match entry {
        None => errs.len() == 1 && errs[0].0 == range && is_call_msg(errs[0].1, 0, name),
        Some(Entry::Procedure(p)) =>
            if n_args < p.parameters@.len() { errs.len() == 1 && errs[0].0 == range && is_call_msg(errs[0].1, 2, name) }
            else if n_args > p.parameters@.len() { errs.len() == 1 && errs[0].0 == range && is_call_msg(errs[0].1, 3, name) }
            else { errs.len() == 0 },
        Some(_) => errs.len() == 1 && errs[0].0 == range && is_call_msg(errs[0].1, 1, name),
    }
}
pub open spec fn call_post(o: CallStatement, n: CallStatement, table: LookupTable) -> bool {
    &&& n.name == o.name
    &&& info_grew(o.info, n.info)
    &&& call_rule_ok(lookup_spec(table, o.name.value@), o.arguments@.len() as int, o.name.value@, o.info.range, tail(o.info, n.info))
    &&& match lookup_spec(table, o.name.value@) {
        Some(Entry::Procedure(p)) => args_post(o.arguments@, n.arguments@, p.parameters@, o.name.value@, table),
        _ => n.arguments == o.arguments,
    }
}
pub open spec fn opt_expr_wf(o: Option<Reference<Expression>>) -> bool {
    match o { Some(e) => expr_wf(e.reference), None => true }
}
pub open spec fn stmt_wf(s: Statement) -> bool
    decreases s
{
    match s {
        Statement::Empty(_) => true,
        Statement::Error(_) => true,
        Statement::Assignment(a) => var_wf(a.variable) && opt_expr_wf(a.expr),
        Statement::Call(c) => c.name.info.range.end > 0 && forall|i: int| 0 <= i < c.arguments@.len() ==> expr_wf((#[trigger] c.arguments@[i]).reference),
        Statement::If(i) => opt_expr_wf(i.condition)
            && (match i.if_branch { Some(b) => stmt_wf(b.reference), None => true })
            && (match i.else_branch { Some(b) => stmt_wf(b.reference), None => true }),
        Statement::While(w) => opt_expr_wf(w.condition)
            && (match w.statement { Some(b) => stmt_wf(b.reference), None => true }),
        Statement::Block(b) => forall|i: int| 0 <= i < b.statements@.len() ==> stmt_wf((#[trigger] b.statements@[i]).reference),
    }
}
pub open spec fn stmt_post(o: Statement, n: Statement, table: LookupTable) -> bool
    decreases o
{
    match (o, n) {
        (Statement::Empty(a), Statement::Empty(b)) => a == b,
        (Statement::Error(a), Statement::Error(b)) => a == b,
        (Statement::Assignment(a), Statement::Assignment(b)) => asg_post(a, b, table),
        (Statement::Call(a), Statement::Call(b)) => call_post(a, b, table),
        (Statement::If(a), Statement::If(b)) => {
            &&& a.info == b.info
            &&& cond_post(a.condition, b.condition, table, SemanticErrorMessage::IfConditionMustBeBoolean)
            &&& match (a.if_branch, b.if_branch) {
                (Some(x), Some(y)) => x.offset == y.offset && stmt_post(x.reference, y.reference, table),
                (None, None) => true,
                _ => false,
            }
            &&& match (a.else_branch, b.else_branch) {
                (Some(x), Some(y)) => x.offset == y.offset && stmt_post(x.reference, y.reference, table),
                (None, None) => true,
                _ => false,
            }
        },
        (Statement::While(a), Statement::While(b)) => {
            &&& a.info == b.info
            &&& cond_post(a.condition, b.condition, table, SemanticErrorMessage::WhileConditionMustBeBoolean)
            &&& match (a.statement, b.statement) {
                (Some(x), Some(y)) => x.offset == y.offset && stmt_post(x.reference, y.reference, table),
                (None, None) => true,
                _ => false,
            }
        },
        (Statement::Block(a), Statement::Block(b)) => {
            &&& a.info == b.info
            &&& a.statements@.len() == b.statements@.len()
            &&& forall|i: int| 0 <= i < a.statements@.len() ==> a.statements@[i].offset == b.statements@[i].offset
                    && stmt_post(a.statements@[i].reference, b.statements@[i].reference, table)
        },
        _ => false,
    }
}
//@extract spl_frontend/src/table/semantic.rs :: impl AnalyzeStatement for Statement
//@ open
    open spec fn post(o: Self, n: Self, table: LookupTable) -> bool { stmt_post(o, n, table) }
    open spec fn pre(&self) -> bool { stmt_wf(*self) }
//@ attr fn analyze
    #[verifier::exec_allows_no_decreases_clause]
//@end
//@extract spl_frontend/src/table/semantic.rs :: impl AnalyzeStatement for BlockStatement
//@ rewrite block_statements_loop
//@ open
    open spec fn post(o: Self, n: Self, table: LookupTable) -> bool { stmt_post(Statement::Block(o), Statement::Block(n), table) }
    open spec fn pre(&self) -> bool { stmt_wf(Statement::Block(*self)) }
//@end
//~assume (R6) the argument loop of CallStatement::analyze applies its body — verified separately as `call_argument_rule` — to argument i and parameter i, in order, for every i below both lengths, and touches nothing else
#[verifier::external_body]
pub fn call_arguments_loop(args: &mut Vec<Reference<Expression>>, params: &Vec<VariableEntry>, callee: &Identifier, table: &LookupTable)
    requires forall|i: int| 0 <= i < old(args)@.len() ==> expr_wf((#[trigger] old(args)@[i]).reference), callee.info.range.end > 0,
    ensures args_post(old(args)@, final(args)@, params@, callee.value@, *table),
{ unimplemented!() }
//@extract spl_frontend/src/ast.rs :: derive ToRange :: struct CallStatement
//@ open
    open spec fn range_spec(&self) -> Range<usize> { self.info.range }
//@end
//@extract spl_frontend/src/table/semantic.rs :: impl AnalyzeStatement for CallStatement
//@ rewrite call_argument_loop string_clone_self_name_value
//@ open
    open spec fn post(o: Self, n: Self, table: LookupTable) -> bool { call_post(o, n, table) }
    open spec fn pre(&self) -> bool { stmt_wf(Statement::Call(*self)) }
//@ at_end fn analyze
proof {
            let o = *old(self);
            assert(self.info.errors@.subrange(0, o.info.errors@.len() as int) =~= o.info.errors@);
            if self.info.errors@.len() == o.info.errors@.len() + 1 {
                assert(tail(o.info, self.info) =~= seq![self.info.errors@[o.info.errors@.len() as int]]);
            } else {
                assert(tail(o.info, self.info) =~= Seq::<SplError>::empty());
            }
        }
    
//@end
//@extract spl_frontend/src/table/semantic.rs :: impl AnalyzeStatement for IfStatement
//@ rewrite as_ref_on_mut_reference
//@ open
    open spec fn post(o: Self, n: Self, table: LookupTable) -> bool { stmt_post(Statement::If(o), Statement::If(n), table) }
    open spec fn pre(&self) -> bool { stmt_wf(Statement::If(*self)) }
//@ attr fn analyze
    #[verifier::exec_allows_no_decreases_clause]
//@ before "if let Some(condition) = &mut self.condition {"
let ghost mut mid: Option<Expression> = None;
        
//@ after "if let Some(condition_type) = condition.analyze(table) {"
                proof { mid = Some(condition.reference); }
//@ before "if let Some(stmt) = &mut self.if_branch"
proof {
            let o = *old(self);
            if o.condition is Some {
                let a = o.condition->0.reference;
                let b = self.condition->0.reference;
                let m = if mid is Some { mid->0 } else { b };
                assert(expr_info(b).errors@.subrange(0, expr_info(m).errors@.len() as int) =~= expr_info(m).errors@);
                if expr_info(b).errors@.len() == expr_info(m).errors@.len() + 1 {
                    assert(tail(expr_info(m), expr_info(b)) =~= seq![expr_info(b).errors@[expr_info(m).errors@.len() as int]]);
                } else {
                    assert(tail(expr_info(m), expr_info(b)) =~= Seq::<SplError>::empty());
                }
                assert(cond_mid(a, m, b, *table, SemanticErrorMessage::IfConditionMustBeBoolean));
            }
        }
        
//@end
//@extract spl_frontend/src/table/semantic.rs :: impl AnalyzeStatement for WhileStatement
//@ rewrite as_ref_on_mut_reference
//@ open
    open spec fn post(o: Self, n: Self, table: LookupTable) -> bool { stmt_post(Statement::While(o), Statement::While(n), table) }
    open spec fn pre(&self) -> bool { stmt_wf(Statement::While(*self)) }
//@ attr fn analyze
    #[verifier::exec_allows_no_decreases_clause]
//@ before "if let Some(condition) = &mut self.condition {"
let ghost mut mid: Option<Expression> = None;
        
//@ after "if let Some(condition_type) = condition.analyze(table) {"
                proof { mid = Some(condition.reference); }
//@ before "if let Some(stmt) = &mut self.statement"
proof {
            let o = *old(self);
            if o.condition is Some {
                let a = o.condition->0.reference;
                let b = self.condition->0.reference;
                let m = if mid is Some { mid->0 } else { b };
                assert(expr_info(b).errors@.subrange(0, expr_info(m).errors@.len() as int) =~= expr_info(m).errors@);
                if expr_info(b).errors@.len() == expr_info(m).errors@.len() + 1 {
                    assert(tail(expr_info(m), expr_info(b)) =~= seq![expr_info(b).errors@[expr_info(m).errors@.len() as int]]);
                } else {
                    assert(tail(expr_info(m), expr_info(b)) =~= Seq::<SplError>::empty());
                }
                assert(cond_mid(a, m, b, *table, SemanticErrorMessage::WhileConditionMustBeBoolean));
            }
        }
        
//@end
// ---------- call rules, per argument: the body of the argument loop of CallStatement::analyze (R6: lifted loop body)
//~assume the argument loop of CallStatement::analyze (`zip(args.iter_mut().map(as_mut), &params).enumerate()`) visits argument i together with parameter i, i counted from 0 (iterator semantics; R6); the rest of CallStatement::analyze (symbol table lookup, argument count rules) is not under contract
//@extract spl_frontend/src/table/semantic.rs :: impl AnalyzeStatement for CallStatement :: fn analyze :: loopbody 0
//@ rewrite self_name_clone_to_callee ref_ne
//@ lift pub fn call_argument_rule(i: usize, arg: &mut Expression, param: &VariableEntry, callee: &Identifier, table: &LookupTable)
//@ sig
    requires i < usize::MAX, expr_wf(*old(arg)), callee.info.range.end > 0,
    ensures
        exists|m1: Expression, m2: Expression| #[trigger] wit2(m1, m2) && call_arg_mid(*old(arg), m1, m2, *final(arg), *param, callee.value@, i + 1, *table), //# call_argument_rule::reference_and_type_rules_per_argument
//@ before "let arg_type = arg.analyze(table);"
let ghost m1 = *arg;
                    
//@ after "let arg_type = arg.analyze(table);"
                    let ghost m2 = *arg;
//@ at_end
proof {
                        let a = *old(arg);
                        assert(expr_info(m1).errors@.subrange(0, expr_info(a).errors@.len() as int) =~= expr_info(a).errors@);
                        if expr_info(m1).errors@.len() == expr_info(a).errors@.len() + 1 {
                            assert(tail(expr_info(a), expr_info(m1)) =~= seq![expr_info(m1).errors@[expr_info(a).errors@.len() as int]]);
                        } else {
                            assert(tail(expr_info(a), expr_info(m1)) =~= Seq::<SplError>::empty());
                        }
                        assert(expr_info(*arg).errors@.subrange(0, expr_info(m2).errors@.len() as int) =~= expr_info(m2).errors@);
                        if expr_info(*arg).errors@.len() == expr_info(m2).errors@.len() + 1 {
                            assert(tail(expr_info(m2), expr_info(*arg)) =~= seq![expr_info(*arg).errors@[expr_info(m2).errors@.len() as int]]);
                        } else {
                            assert(tail(expr_info(m2), expr_info(*arg)) =~= Seq::<SplError>::empty());
                        }
                        assert(call_arg_mid(a, m1, m2, *arg, *param, callee.value@, i + 1, *table));
                        assert(wit2(m1, m2));
                    }
//@end


// ---------- semantic::analyze: which lookup table a procedure body is analysed against
//~assume (R13) `proc.statements.iter_mut().for_each(|stmt| stmt.analyze(lookup_table))` analyses every statement of the body in place, in order, with that table (iterator code, outside Verus); each statement's analysis is the verified `Statement::analyze`
#[verifier::external_body]
pub fn analyze_statements_loop(stmts: &mut Vec<Reference<Statement>>, table: &LookupTable)
    requires forall|i: int| 0 <= i < old(stmts)@.len() ==> stmt_wf((#[trigger] old(stmts)@[i]).reference),
    ensures body_post(old(stmts)@, final(stmts)@, *table),
{ unimplemented!() }
pub open spec fn body_post(o: Seq<Reference<Statement>>, n: Seq<Reference<Statement>>, table: LookupTable) -> bool {
    o.len() == n.len() && forall|i: int| 0 <= i < o.len() ==> (#[trigger] o[i]).offset == n[i].offset && stmt_post(o[i].reference, n[i].reference, table)
}
/// "gets no diagnostic for any rule it does not violate": the body of a procedure is checked against the parameters and local variables of
/// **its own** entry; a redeclared procedure (or one named like a type) has no entry of its own, its names are unknown, and its body is left alone
pub open spec fn own_entry(pd: ProcedureDeclaration, range: Range<usize>, table: GlobalTable) -> Option<ProcedureEntry> {
    match pd.name {
        Some(name) => if gmap(table).contains_key(name.value@) { match gmap(table)[name.value@] { GlobalEntry::Procedure(pe) => if pe.range == range { Some(pe) } else { None }, GlobalEntry::Type(_) => None } } else { None },
        None => None,
    }
}
//@extract spl_frontend/src/table/semantic.rs :: fn analyze :: closure |(proc, range)|
//@ rewrite proc_statements_loop range_ne
//@ lift pub fn analyze_procedure(proc: &mut ProcedureDeclaration, range: Range<usize>, table: &GlobalTable)
//@ sig
    requires
        forall|i: int| 0 <= i < old(proc).statements@.len() ==> stmt_wf((#[trigger] old(proc).statements@[i]).reference),
        old(proc).name is Some ==> gmap(*table).contains_key(old(proc).name->0.value@),
    ensures
        own_entry(*old(proc), range, *table) is None ==> *final(proc) == *old(proc), //# analyze::a_body_without_an_entry_of_its_own_gets_no_semantic_diagnostics
        own_entry(*old(proc), range, *table) is Some ==> body_post(old(proc).statements@, final(proc).statements@, LookupTable { local_table: Some(&own_entry(*old(proc), range, *table)->0.local_table), global_table: Some(table) }), //# analyze::a_body_is_checked_against_its_own_parameters_and_locals
        final(proc).name == old(proc).name && final(proc).info == old(proc).info && final(proc).parameters == old(proc).parameters && final(proc).variable_declarations == old(proc).variable_declarations && final(proc).doc == old(proc).doc, //# analyze::nothing_but_the_statements_is_touched
//@end
//~assume every named procedure declaration finds an entry under its name (entered by the table builder, or an earlier declaration of that name): the `expect` in semantic::analyze
//~not_decided the outer iteration of semantic::analyze over the global declarations (iter_mut/filter_map/for_each) and that `range` is the declaration's absolute token range
//~not_decided syntax diagnostics (nom parser) and therefore "a valid program gets no diagnostics at all"; what the HashMap tables contain is an abstract map view (R15); the declaration and main rules are in unit `decls`
//~not_decided termination of the trait-dispatched recursion (exec_allows_no_decreases_clause): partial correctness
pub proof fn witness_rules(r: Range<usize>) {
    let e = SplError(r, sem(SemanticErrorMessage::OperatorDifferentTypes));
    assert(op_rule_ok(Some(DataType::Int), Some(DataType::Bool), Operator::Add, r, seq![e]));
    assert(op_rule_ok(Some(DataType::Int), Some(DataType::Int), Operator::Add, r, Seq::empty()));
    assert(!op_rule_ok(Some(DataType::Int), Some(DataType::Int), Operator::Add, r, seq![e]));
}
}
fn main() {}
