// unit `positions` — C08 (C03a, C15, C17): byte offset <-> LSP position conversion of document.rs, UNBOUNDED.
// `str::char_indices` has no vstd specification and cannot be given one from outside vstd, so the loop header
// `for (i, c) in text.char_indices()` is rewritten to iterate the collected pairs (R4: `char_index_vec`, same elements, same order);
// the loop bodies, comparisons and early returns are verbatim.
use vstd::prelude::*;
use std::ops::Range;
verus! {
//@include shims.rs

//@include inc_posmodel.rs

// ---------- the code
//@extract lsp4spl/src/document.rs :: fn is_line_end
//@ rewrite starts_with_char
//@ ret b
//@ sig
    ensures b == (c == '\n' || (c == '\r' && !(rest@.len() > 0 && rest@[0] == '\n'))), //# is_line_end::lf_or_lone_cr
//@end

/// the scan state after k characters
pub open spec fn scanned(s: Seq<char>, k: int, line: u32, character: u32) -> bool {
    0 <= k <= s.len() && line == line_of(s, k) && character == col_of(s, k)
}
//@extract lsp4spl/src/document.rs :: fn as_position
//@ rewrite char_indices_vec str_suffix char_len_utf16
//@ ret p
//@ sig
    requires text_fits(text@),
    ensures p == pos_of(index, text@), //# as_position::lsp_position_of_the_offset
//@ before "char_index_vec(text) {"
it: 
//@ loop 0
        invariant_except_break
            scanned(text@, it.index@ as int, line, character),
            forall|j: int| 0 <= j < it.index@ ==> byte_off(text@, j) != index,
        invariant
            text_fits(text@),
            it.seq().len() == text@.len(),
            forall|k: int| 0 <= k < text@.len() ==> (#[trigger] it.seq()[k]).1 == text@[k] && it.seq()[k].0 == byte_off(text@, k),
        ensures
            exists|k: int| scanned(text@, k, line, character) && (forall|j: int| 0 <= j < k ==> byte_off(text@, j) != index)
                && (k < text@.len() ==> byte_off(text@, k) == index),
//@ after "for (i, c) in char_index_vec(text) {"
        let ghost k = it.index@ as int;
        proof {
            assert(it.seq()[k].1 == text@[k] && it.seq()[k].0 == byte_off(text@, k));
            lemma_line_col_bounds(text@, k);
            assert(is_char_at(text@, byte_off(text@, k + 1), k + 1));
            if k + 1 < text@.len() { lemma_byte_off_increasing(text@, k + 1, text@.len() as int); }
        }
//@ before "Position { line, character }"
proof {
        let s = text@;
        let k = choose|k: int| scanned(s, k, line, character) && (forall|j: int| 0 <= j < k ==> byte_off(s, j) != index) && (k < s.len() ==> byte_off(s, k) == index);
        if k < s.len() {
            assert(is_char_at(s, index as int, k));
            let k2 = choose|k2: int| is_char_at(s, index as int, k2);
            lemma_char_at_unique(s, index as int, k, k2);
        } else {
            if is_boundary(s, index as int) {
                let k2 = choose|k2: int| is_char_at(s, index as int, k2);
                assert(k2 == s.len());
            }
        }
    }
    
//@end

/// no stop before character k, scanning from `from`
pub open spec fn no_stop(s: Seq<char>, p: Position, from: int, k: int) -> bool { forall|j: int| from <= j < k ==> !stops_at(s, j, p) }
pub proof fn lemma_first_stop(s: Seq<char>, p: Position, from: int, k: int)
    requires 0 <= from <= k <= s.len(), no_stop(s, p, from, k), k < s.len() ==> stops_at(s, k, p),
    ensures char_of_pos(s, p, from) == k, //# lemma_first_stop
    decreases k - from
{
    if from < k { lemma_first_stop(s, p, from + 1, k); }
}
//@extract lsp4spl/src/document.rs :: fn get_insertion_index
//@ rewrite char_indices_vec str_suffix char_len_utf16 str_len
//@ ret r
//@ sig
    requires text_fits(text@),
    ensures
        r == idx_of(*position, text@), //# get_insertion_index::lsp_offset_of_the_position
        is_boundary(text@, r as int), //# get_insertion_index::character_boundary_inside_the_text
//@ before "char_index_vec(text) {"
it: 
//@ loop 0
        invariant
            text_fits(text@),
            it.seq().len() == text@.len(),
            forall|k: int| 0 <= k < text@.len() ==> (#[trigger] it.seq()[k]).1 == text@[k] && it.seq()[k].0 == byte_off(text@, k),
            scanned(text@, it.index@ as int, line, character),
            no_stop(text@, *position, 0, it.index@ as int),
//@ after "for (i, c) in char_index_vec(text) {"
        let ghost k = it.index@ as int;
        proof {
            assert(it.seq()[k].1 == text@[k] && it.seq()[k].0 == byte_off(text@, k));
            lemma_line_col_bounds(text@, k);
            assert(is_char_at(text@, byte_off(text@, k + 1), k + 1));
            if k + 1 < text@.len() { lemma_byte_off_increasing(text@, k + 1, text@.len() as int); }
        }
//@ before "return i;"
proof {
                    assert(stops_at(text@, k, *position));
                    lemma_first_stop(text@, *position, 0, k);
                    assert(is_char_at(text@, i as int, k));
                }
                
//@ before "str_len(text)\n}"
proof {
        lemma_first_stop(text@, *position, 0, text@.len() as int);
        assert(is_char_at(text@, byte_off(text@, text@.len() as int), text@.len() as int));
    }
    
//@end

// ---------- consequences stated by C08 / C03
/// "a column past the end of a line means the end of that line": any larger character offset resolves to the same place
pub proof fn lemma_overshoot_is_line_end(s: Seq<char>, k: int, l: u32, c1: u32, c2: u32)
    requires 0 <= k < s.len(), line_of(s, k) == l, (s[k] == '\n' || s[k] == '\r'), no_stop(s, Position { line: l, character: c1 }, 0, k), c1 <= c2,
        no_stop(s, Position { line: l, character: c2 }, 0, k),
    ensures
        char_of_pos(s, Position { line: l, character: c1 }, 0) == k, //# lemma_overshoot_is_line_end::first
        char_of_pos(s, Position { line: l, character: c2 }, 0) == k, //# lemma_overshoot_is_line_end::same_place
{
    lemma_first_stop(s, Position { line: l, character: c1 }, 0, k);
    lemma_first_stop(s, Position { line: l, character: c2 }, 0, k);
}
/// "every range ever published lies inside the document": no offset maps behind the end position of the text
pub proof fn lemma_inside_document(s: Seq<char>, index: usize)
    requires text_fits(s),
    ensures ({ let p = pos_of(index, s); let e = pos_at(s, s.len() as int); p.line < e.line || (p.line == e.line && p.character <= e.character) }), //# lemma_inside_document
{
    if is_boundary(s, index as int) {
        let k = choose|k: int| is_char_at(s, index as int, k);
        lemma_pos_monotone(s, k, s.len() as int);
        lemma_line_col_bounds(s, k);
        lemma_line_col_bounds(s, s.len() as int);
    }
}

//@extract lsp4spl/src/document.rs :: fn as_pos_range
//@ ret r
//@ sig
    requires text_fits(text@),
    ensures
        r.start == pos_of(range.start, text@) && r.end == pos_of(range.end, text@), //# as_pos_range::componentwise
//@end
//@extract lsp4spl/src/document.rs :: fn as_index_range
//@ ret r
//@ sig
    requires text_fits(text@),
    ensures
        r.start == idx_of(pos_range.start, text@) && r.end == idx_of(pos_range.end, text@), //# as_index_range::componentwise
//@end
//~not_decided utf16_len (`text[range].encode_utf16().count()`) is not under contract here: str slicing / encode_utf16 have no specification; it is checked by Kani unit `positions` (bounded)
//~assume documents are shorter than 2^31 characters and 2^64 bytes (`text_fits`: the protocol's u32 line/character fields cannot overflow)
pub proof fn witness_positions() {
    let s = seq!['a', '\n', 'b'];
    assert(byte_off(s, 0) == 0);
    assert(is_char_at(s, 0, 0));
}
}
fn main() {}
