// unit `refs` — C13, expression level: find_vars::{find_in_variable, find_in_expression}
use vstd::prelude::*;
use std::ops::Range;
use std::ops::Deref;
verus! {
//@include shims.rs
//@include types_error.rs
//@include types_tokens.rs
//@include types_ast.rs
//@include inc_shiftable.rs
//@include inc_reference.rs

// ---------- spec vocabulary (statement of C13: "exactly the occurrences ... variables used inside parenthesised,
// negated and index expressions"; ranges are relative to the nearest enclosing Reference, ast.rs)
/// an identifier displaced by d: name and attached errors kept, range moved
pub open spec fn id_plus(id: Identifier, d: int) -> Identifier {
    Identifier { value: id.value, info: AstInfo { range: range_plus(id.info.range, d), errors: id.info.errors } }
}
pub open spec fn ids_plus(s: Seq<Identifier>, d: int) -> Seq<Identifier> {
    Seq::new(s.len(), |i: int| id_plus(s[i], d))
}
pub open spec fn ids_fit(s: Seq<Identifier>, d: int) -> bool {
    forall|i: int| 0 <= i < s.len() ==> range_fits((#[trigger] s[i]).info.range, d)
}
/// occurrences of `name` in a variable, relative to the Reference the variable lives in
pub open spec fn occ_var(v: Variable, name: Seq<char>) -> Seq<Identifier>
    decreases v
{
    match v {
        Variable::NamedVariable(id) => if id.value@ == name { seq![id] } else { Seq::empty() },
        Variable::ArrayAccess(a) => occ_var(*a.array, name) + (match a.index {
            Some(ix) => ids_plus(occ_expr(ix.reference, name), ix.offset as int),
            None => Seq::empty(),
        }),
    }
}
pub open spec fn occ_expr(e: Expression, name: Seq<char>) -> Seq<Identifier>
    decreases e
{
    match e {
        Expression::Variable(v) => occ_var(v, name),
        Expression::Binary(b) => occ_expr(*b.lhs, name) + occ_expr(*b.rhs, name),
        Expression::Bracketed(b) => occ_expr(*b.expr, name),
        Expression::Unary(u) => occ_expr(*u.expr, name),
        Expression::IntLiteral(_) => Seq::empty(),
        Expression::Error(_) => Seq::empty(),
    }
}
/// every index reference can be applied without overflow (data invariant of a parsed tree: positions are token indices)
pub open spec fn offsets_fit_var(v: Variable, name: Seq<char>) -> bool
    decreases v
{
    match v {
        Variable::NamedVariable(id) => true,
        Variable::ArrayAccess(a) => offsets_fit_var(*a.array, name) && (match a.index {
            Some(ix) => offsets_fit_expr(ix.reference, name) && ids_fit(occ_expr(ix.reference, name), ix.offset as int),
            None => true,
        }),
    }
}
pub open spec fn offsets_fit_expr(e: Expression, name: Seq<char>) -> bool
    decreases e
{
    match e {
        Expression::Variable(v) => offsets_fit_var(v, name),
        Expression::Binary(b) => offsets_fit_expr(*b.lhs, name) && offsets_fit_expr(*b.rhs, name),
        Expression::Bracketed(b) => offsets_fit_expr(*b.expr, name),
        Expression::Unary(u) => offsets_fit_expr(*u.expr, name),
        Expression::IntLiteral(_) => true,
        Expression::Error(_) => true,
    }
}

// ---------- shims / assumed std behaviour
//~assume derived Clone for Identifier is structural (R1: derives are dropped, `clone` returns an equal value)
impl Clone for Identifier {
    #[verifier::external_body]
    fn clone(&self) -> (r: Self)
        ensures r == *self,
    { unimplemented!() }
}
#[verifier::external_body]
pub fn string_eq_str(a: &String, b: &str) -> (r: bool)
    ensures r == (a@ == b@),
{ a == b }
#[verifier::external_body]
pub fn vec_extend(a: &mut Vec<Identifier>, b: Vec<Identifier>)
    ensures final(a)@ == old(a)@ + b@,
{ a.extend(b) }

// ---------- Shiftable for AstInfo / Identifier (verified) and Vec<Identifier> (iterator code: assumed)
//@extract spl_frontend/src/ast.rs :: impl Shiftable for AstInfo
//@ open
    open spec fn shift_ok(self, offset: usize) -> bool { range_fits(self.range, offset as int) }
    open spec fn shifted(self, offset: usize, r: Self) -> bool { r == (AstInfo { range: range_plus(self.range, offset as int), errors: self.errors }) }
//@end
//@extract spl_frontend/src/ast.rs :: impl Shiftable for Identifier
//@ open
    open spec fn shift_ok(self, offset: usize) -> bool { range_fits(self.info.range, offset as int) }
    open spec fn shifted(self, offset: usize, r: Self) -> bool { r == id_plus(self, offset as int) }
//@end
//~assume `impl Shiftable for Vec<Identifier>` (ast.rs: into_iter().map(shift).collect()) displaces every identifier and keeps order (iterator adapters are outside Verus)
//@extract spl_frontend/src/ast.rs :: impl Shiftable for Vec<Identifier>
//@ open
    open spec fn shift_ok(self, offset: usize) -> bool { ids_fit(self@, offset as int) }
    open spec fn shifted(self, offset: usize, r: Self) -> bool { r@ == ids_plus(self@, offset as int) }
//@ attr fn shift
    #[verifier::external_body]
//@end

// ---------- code under contract
//~not_decided statement-level walk find_in_statement, find_procs, find_types (flat_map/filter_map), conversion to TextEdits, prepare-rename (async handlers), binding/scoping (LookupTable/HashMap): "occurrences of one binding" is decided inside expressions only
//@extract lsp4spl/src/features/references.rs :: fn find_vars :: fn find_in_variable
//@ rewrite string_eq_str vec_extend
//@ ret r
//@ sig
        requires offsets_fit_var(*var, name@),
        ensures
            r@ == occ_var(*var, name@), //# find_in_variable::exactly_the_occurrences
        decreases var, 0nat
//@end
//@extract lsp4spl/src/features/references.rs :: fn find_vars :: fn find_in_expression
//@ rewrite vec_extend
//@ ret r
//@ sig
        requires offsets_fit_expr(*expr, name@),
        ensures
            r@ == occ_expr(*expr, name@), //# find_in_expression::exactly_the_occurrences
        decreases expr, 1nat
//@end

pub proof fn witness_refs(id: Identifier) {
    let v = Variable::NamedVariable(id);
    assert(offsets_fit_var(v, id.value@));
    assert(occ_var(v, id.value@) == seq![id]);
}
}
fn main() {}
