// unit `refs` — C13, expression level: find_vars::{find_in_variable, find_in_expression}
use vstd::prelude::*;
use std::ops::Range;
use std::ops::Deref;
verus! {
//@include shims.rs
//@include types_error.rs
//@include types_tokens.rs
//@include types_ast.rs
//@include inc_shiftable.rs
//@include inc_reference.rs

// ---------- spec vocabulary (statement of C13: "exactly the occurrences ... variables used inside parenthesised,
// negated and index expressions"; ranges are relative to the nearest enclosing Reference, ast.rs)
/// an identifier displaced by d: name and attached errors kept, range moved
pub open spec fn id_plus(id: Identifier, d: int) -> Identifier {
    Identifier { value: id.value, info: AstInfo { range: range_plus(id.info.range, d), errors: id.info.errors } }
}
pub open spec fn ids_plus(s: Seq<Identifier>, d: int) -> Seq<Identifier> {
    Seq::new(s.len(), |i: int| id_plus(s[i], d))
}
pub open spec fn ids_fit(s: Seq<Identifier>, d: int) -> bool {
    forall|i: int| 0 <= i < s.len() ==> range_fits((#[trigger] s[i]).info.range, d)
}
/// occurrences of `name` in a variable, relative to the Reference the variable lives in
pub open spec fn occ_var(v: Variable, name: Seq<char>) -> Seq<Identifier>
    decreases v
{
    match v {
        Variable::NamedVariable(id) => if id.value@ == name { seq![id] } else { Seq::empty() },
        Variable::ArrayAccess(a) => occ_var(*a.array, name) + (match a.index {
            Some(ix) => ids_plus(occ_expr(ix.reference, name), ix.offset as int),
            None => Seq::empty(),
        }),
    }
}
pub open spec fn occ_expr(e: Expression, name: Seq<char>) -> Seq<Identifier>
    decreases e
{
    match e {
        Expression::Variable(v) => occ_var(v, name),
        Expression::Binary(b) => occ_expr(*b.lhs, name) + occ_expr(*b.rhs, name),
        Expression::Bracketed(b) => occ_expr(*b.expr, name),
        Expression::Unary(u) => occ_expr(*u.expr, name),
        Expression::IntLiteral(_) => Seq::empty(),
        Expression::Error(_) => Seq::empty(),
    }
}
/// every index reference can be applied without overflow (data invariant of a parsed tree: positions are token indices)
pub open spec fn offsets_fit_var(v: Variable, name: Seq<char>) -> bool
    decreases v
{
    match v {
        Variable::NamedVariable(id) => true,
        Variable::ArrayAccess(a) => offsets_fit_var(*a.array, name) && (match a.index {
            Some(ix) => offsets_fit_expr(ix.reference, name) && ids_fit(occ_expr(ix.reference, name), ix.offset as int),
            None => true,
        }),
    }
}
pub open spec fn offsets_fit_expr(e: Expression, name: Seq<char>) -> bool
    decreases e
{
    match e {
        Expression::Variable(v) => offsets_fit_var(v, name),
        Expression::Binary(b) => offsets_fit_expr(*b.lhs, name) && offsets_fit_expr(*b.rhs, name),
        Expression::Bracketed(b) => offsets_fit_expr(*b.expr, name),
        Expression::Unary(u) => offsets_fit_expr(*u.expr, name),
        Expression::IntLiteral(_) => true,
        Expression::Error(_) => true,
    }
}

// ---------- shims / assumed std behaviour
//~assume derived Clone for Identifier is structural (R1: derives are dropped, `clone` returns an equal value)
impl Clone for Identifier {
    #[verifier::external_body]
    fn clone(&self) -> (r: Self)
        ensures r == *self,
    { unimplemented!() }
}
#[verifier::external_body]
pub fn string_eq_str(a: &String, b: &str) -> (r: bool)
    ensures r == (a@ == b@),
{ a == b }
#[verifier::external_body]
pub fn vec_extend(a: &mut Vec<Identifier>, b: Vec<Identifier>)
    ensures final(a)@ == old(a)@ + b@,
{ a.extend(b) }

// ---------- Shiftable for AstInfo / Identifier (verified) and Vec<Identifier> (iterator code: assumed)
//@extract spl_frontend/src/ast.rs :: impl Shiftable for AstInfo
//@ open
    open spec fn shift_ok(self, offset: usize) -> bool { range_fits(self.range, offset as int) }
    open spec fn shifted(self, offset: usize, r: Self) -> bool { r == (AstInfo { range: range_plus(self.range, offset as int), errors: self.errors }) }
//@end
//@extract spl_frontend/src/ast.rs :: impl Shiftable for Identifier
//@ open
    open spec fn shift_ok(self, offset: usize) -> bool { range_fits(self.info.range, offset as int) }
    open spec fn shifted(self, offset: usize, r: Self) -> bool { r == id_plus(self, offset as int) }
//@end
//~assume `impl Shiftable for Vec<Identifier>` (ast.rs: into_iter().map(shift).collect()) displaces every identifier and keeps order (iterator adapters are outside Verus)
//@extract spl_frontend/src/ast.rs :: impl Shiftable for Vec<Identifier>
//@ open
    open spec fn shift_ok(self, offset: usize) -> bool { ids_fit(self@, offset as int) }
    open spec fn shifted(self, offset: usize, r: Self) -> bool { r@ == ids_plus(self@, offset as int) }
//@ attr fn shift
    #[verifier::external_body]
//@end

// ---------- code under contract
//~not_decided which procedure find_vars looks into (filter_map/find over the global declarations), find_procs, the body of find_types, conversion to TextEdits, prepare-rename (async handlers), binding/scoping (LookupTable/HashMap): "occurrences of one binding" is decided for the statements of one procedure, not across declarations
//@extract lsp4spl/src/features/references.rs :: fn find_vars :: fn find_in_variable
//@ rewrite string_eq_str vec_extend
//@ ret r
//@ sig
        requires offsets_fit_var(*var, name@),
        ensures
            r@ == occ_var(*var, name@), //# find_in_variable::exactly_the_occurrences
        decreases var, 0nat
//@end
//@extract lsp4spl/src/features/references.rs :: fn find_vars :: fn find_in_expression
//@ rewrite vec_extend
//@ ret r
//@ sig
        requires offsets_fit_expr(*expr, name@),
        ensures
            r@ == occ_expr(*expr, name@), //# find_in_expression::exactly_the_occurrences
        decreases expr, 1nat
//@end

// ---------- statement level (find_vars::find_in_statement): every statement shape, with the accumulated Reference offsets
pub open spec fn opt_occ_expr(o: Option<Reference<Expression>>, name: Seq<char>) -> Seq<Identifier> {
    match o { Some(e) => ids_plus(occ_expr(e.reference, name), e.offset as int), None => Seq::empty() }
}
pub open spec fn occ_args(v: Vec<Reference<Expression>>, name: Seq<char>, n: nat) -> Seq<Identifier>
    decreases n
{
    if n == 0 || n > v@.len() { Seq::empty() } else { occ_args(v, name, (n - 1) as nat) + ids_plus(occ_expr(v@[n - 1].reference, name), v@[n - 1].offset as int) }
}
pub open spec fn occ_stmt(s: Statement, name: Seq<char>) -> Seq<Identifier>
    decreases s, 0nat
{
    match s {
        Statement::Assignment(a) => occ_var(a.variable, name) + opt_occ_expr(a.expr, name),
        Statement::Block(b) => occ_stmts(b.statements, name, b.statements@.len()),
        Statement::Call(c) => occ_args(c.arguments, name, c.arguments@.len()),
        Statement::If(i) => opt_occ_expr(i.condition, name)
            + (match i.if_branch { Some(b) => ids_plus(occ_stmt(b.reference, name), b.offset as int), None => Seq::empty() })
            + (match i.else_branch { Some(b) => ids_plus(occ_stmt(b.reference, name), b.offset as int), None => Seq::empty() }),
        Statement::While(w) => opt_occ_expr(w.condition, name)
            + (match w.statement { Some(b) => ids_plus(occ_stmt(b.reference, name), b.offset as int), None => Seq::empty() }),
        Statement::Empty(_) => Seq::empty(),
        Statement::Error(_) => Seq::empty(),
    }
}
pub open spec fn occ_stmts(v: Vec<Reference<Statement>>, name: Seq<char>, n: nat) -> Seq<Identifier>
    decreases v, n
{
    if n == 0 || n > v@.len() { Seq::empty() } else { occ_stmts(v, name, (n - 1) as nat) + ids_plus(occ_stmt(v@[n - 1].reference, name), v@[n - 1].offset as int) }
}
pub open spec fn fit_opt_expr(o: Option<Reference<Expression>>, name: Seq<char>) -> bool {
    match o { Some(e) => offsets_fit_expr(e.reference, name) && ids_fit(occ_expr(e.reference, name), e.offset as int), None => true }
}
pub open spec fn fit_stmt(s: Statement, name: Seq<char>) -> bool
    decreases s, 0nat
{
    match s {
        Statement::Assignment(a) => offsets_fit_var(a.variable, name) && fit_opt_expr(a.expr, name),
        Statement::Block(b) => fit_stmts(b.statements, name, b.statements@.len()),
        Statement::Call(c) => forall|i: int| 0 <= i < c.arguments@.len() ==> offsets_fit_expr((#[trigger] c.arguments@[i]).reference, name) && ids_fit(occ_expr(c.arguments@[i].reference, name), c.arguments@[i].offset as int),
        Statement::If(i) => fit_opt_expr(i.condition, name)
            && (match i.if_branch { Some(b) => fit_stmt(b.reference, name) && ids_fit(occ_stmt(b.reference, name), b.offset as int), None => true })
            && (match i.else_branch { Some(b) => fit_stmt(b.reference, name) && ids_fit(occ_stmt(b.reference, name), b.offset as int), None => true }),
        Statement::While(w) => fit_opt_expr(w.condition, name)
            && (match w.statement { Some(b) => fit_stmt(b.reference, name) && ids_fit(occ_stmt(b.reference, name), b.offset as int), None => true }),
        Statement::Empty(_) => true,
        Statement::Error(_) => true,
    }
}
pub open spec fn fit_stmts(v: Vec<Reference<Statement>>, name: Seq<char>, n: nat) -> bool
    decreases v, n
{
    if n == 0 || n > v@.len() { true } else { fit_stmts(v, name, (n - 1) as nat) && fit_stmt(v@[n - 1].reference, name) && ids_fit(occ_stmt(v@[n - 1].reference, name), v@[n - 1].offset as int) }
}
/// concatenation, in order, of g over the first n items
pub open spec fn flat_ids<T>(items: Seq<T>, g: spec_fn(T) -> Seq<Identifier>, n: nat) -> Seq<Identifier>
    decreases n
{
    if n == 0 || n > items.len() { Seq::empty() } else { flat_ids(items, g, (n - 1) as nat) + g(items[n - 1]) }
}
//~assume `xs.iter().flat_map(f).collect()` applies f to every element of xs in order and concatenates the results (std iterator semantics; R8)
#[verifier::external_body]
pub fn flat_map_collect<T, F: Fn(&T) -> Vec<Identifier>>(items: &Vec<T>, f: F, Ghost(g): Ghost<spec_fn(T) -> Seq<Identifier>>) -> (r: Vec<Identifier>)
    requires
        forall|i: int| 0 <= i < items@.len() ==> call_requires(f, (&#[trigger] items@[i],)),
        forall|i: int, out: Vec<Identifier>| 0 <= i < items@.len() && #[trigger] call_ensures(f, (&items@[i],), out) ==> out@ == g(items@[i]),
    ensures r@ == flat_ids(items@, g, items@.len()),
{ items.iter().flat_map(f).collect() }

pub proof fn lemma_flat_occ_stmts(v: Vec<Reference<Statement>>, name: Seq<char>, g: spec_fn(Reference<Statement>) -> Seq<Identifier>, n: nat)
    requires n <= v@.len(), forall|s: Reference<Statement>| #[trigger] g(s) == ids_plus(occ_stmt(s.reference, name), s.offset as int),
    ensures flat_ids(v@, g, n) == occ_stmts(v, name, n), //# lemma_flat_occ_stmts
    decreases n
{ if n > 0 { lemma_flat_occ_stmts(v, name, g, (n - 1) as nat); } }
pub proof fn lemma_flat_occ_args(v: Vec<Reference<Expression>>, name: Seq<char>, g: spec_fn(Reference<Expression>) -> Seq<Identifier>, n: nat)
    requires n <= v@.len(), forall|s: Reference<Expression>| #[trigger] g(s) == ids_plus(occ_expr(s.reference, name), s.offset as int),
    ensures flat_ids(v@, g, n) == occ_args(v, name, n), //# lemma_flat_occ_args
    decreases n
{ if n > 0 { lemma_flat_occ_args(v, name, g, (n - 1) as nat); } }
pub proof fn lemma_fit_stmts(v: Vec<Reference<Statement>>, name: Seq<char>, n: nat, i: int)
    requires fit_stmts(v, name, n), n <= v@.len(), 0 <= i < n,
    ensures fit_stmt(v@[i].reference, name) && ids_fit(occ_stmt(v@[i].reference, name), v@[i].offset as int), //# lemma_fit_stmts
    decreases n
{ if i < n - 1 { lemma_fit_stmts(v, name, (n - 1) as nat, i); } }

//@extract lsp4spl/src/features/references.rs :: fn find_vars :: fn find_in_statement
//@ rewrite vec_extend flat_map_collect map_or_inline
//@ ret r
//@ attr
    #[verifier::exec_allows_no_decreases_clause]
//@ sig
        requires fit_stmt(*stmt, name@),
        ensures
            r@ == occ_stmt(*stmt, name@), //# find_in_statement::exactly_the_occurrences_in_every_statement_shape
//@ before "flat_map_collect(&b.statements"
{ proof { assert forall|i: int| 0 <= i < b.statements@.len() implies fit_stmt((#[trigger] b.statements@[i]).reference, name@) && ids_fit(occ_stmt(b.statements@[i].reference, name@), b.statements@[i].offset as int) by { lemma_fit_stmts(b.statements, name@, b.statements@.len(), i); } }
                let r_ = 
//@ before ",\n            Statement::Call(c)"
; proof { lemma_flat_occ_stmts(b.statements, name@, |s: Reference<Statement>| ids_plus(occ_stmt(s.reference, name@), s.offset as int), b.statements@.len()); } r_ }
//@ before "flat_map_collect(&c.arguments"
{ let r_ = 
//@ before ",\n            Statement::If(i)"
; proof { lemma_flat_occ_args(c.arguments, name@, |s: Reference<Expression>| ids_plus(occ_expr(s.reference, name@), s.offset as int), c.arguments@.len()); } r_ }
//@ closure |stmt| : &Reference<Statement>
 -> (out: Vec<Identifier>)
                    requires fit_stmt(stmt.reference, name@) && ids_fit(occ_stmt(stmt.reference, name@), stmt.offset as int),
                    ensures out@ == ids_plus(occ_stmt(stmt.reference, name@), stmt.offset as int),
//@ after_closure |stmt|
, Ghost(|s: Reference<Statement>| ids_plus(occ_stmt(s.reference, name@), s.offset as int))
//@ closure |expr| : &Reference<Expression>
 -> (out: Vec<Identifier>)
                    requires offsets_fit_expr(expr.reference, name@) && ids_fit(occ_expr(expr.reference, name@), expr.offset as int),
                    ensures out@ == ids_plus(occ_expr(expr.reference, name@), expr.offset as int),
//@ after_closure |expr|
, Ghost(|s: Reference<Expression>| ids_plus(occ_expr(s.reference, name@), s.offset as int))
//@end

// ---------- find_vars, inside the procedure that declares the variable: declarations of parameters and locals, then every statement
pub open spec fn param_decl_occ(p: Reference<ParameterDeclaration>, name: Seq<char>) -> Option<Identifier> {
    match p.reference {
        ParameterDeclaration::Valid { doc, is_ref, name: n, type_expr, info } => match n { Some(id) => if id.value@ == name { Some(id_plus(id, p.offset as int)) } else { None }, None => None },
        ParameterDeclaration::Error(_) => None,
    }
}
pub open spec fn var_decl_occ(v: Reference<VariableDeclaration>, name: Seq<char>) -> Option<Identifier> {
    match v.reference {
        VariableDeclaration::Valid { doc, name: n, type_expr, info } => match n { Some(id) => if id.value@ == name { Some(id_plus(id, v.offset as int)) } else { None }, None => None },
        VariableDeclaration::Error(_) => None,
    }
}
/// the Some results of g over the first n items, in order
pub open spec fn filter_ids<T>(items: Seq<T>, g: spec_fn(T) -> Option<Identifier>, n: nat) -> Seq<Identifier>
    decreases n
{
    if n == 0 || n > items.len() { Seq::empty() } else { filter_ids(items, g, (n - 1) as nat) + (match g(items[n - 1]) { Some(id) => seq![id], None => Seq::empty() }) }
}
//~assume `xs.iter().filter_map(f).collect()` applies f to every element of xs in order and keeps the Some results (std iterator semantics; R8)
#[verifier::external_body]
pub fn filter_map_collect<T, F: Fn(&T) -> Option<Identifier>>(items: &Vec<T>, f: F, Ghost(g): Ghost<spec_fn(T) -> Option<Identifier>>) -> (r: Vec<Identifier>)
    requires
        forall|i: int| 0 <= i < items@.len() ==> call_requires(f, (&#[trigger] items@[i],)),
        forall|i: int, out: Option<Identifier>| 0 <= i < items@.len() && #[trigger] call_ensures(f, (&items@[i],), out) ==> out == g(items@[i]),
    ensures r@ == filter_ids(items@, g, items@.len()),
{ items.iter().filter_map(f).collect() }
/// "one edit per occurrence of that binding (declaration included)": the declaring parameter / local, then the uses in order
pub open spec fn occ_proc(pd: ProcedureDeclaration, name: Seq<char>) -> Seq<Identifier> {
    filter_ids(pd.parameters@, |p: Reference<ParameterDeclaration>| param_decl_occ(p, name), pd.parameters@.len())
    + filter_ids(pd.variable_declarations@, |v: Reference<VariableDeclaration>| var_decl_occ(v, name), pd.variable_declarations@.len())
    + occ_stmts(pd.statements, name, pd.statements@.len())
}
pub open spec fn fit_proc(pd: ProcedureDeclaration, name: Seq<char>, offset: usize) -> bool {
    (forall|i: int| 0 <= i < pd.parameters@.len() ==> match (#[trigger] pd.parameters@[i]).reference {
        ParameterDeclaration::Valid { doc, is_ref, name: n, type_expr, info } => n is Some ==> range_fits(n->0.info.range, pd.parameters@[i].offset as int), _ => true })
    && (forall|i: int| 0 <= i < pd.variable_declarations@.len() ==> match (#[trigger] pd.variable_declarations@[i]).reference {
        VariableDeclaration::Valid { doc, name: n, type_expr, info } => n is Some ==> range_fits(n->0.info.range, pd.variable_declarations@[i].offset as int), _ => true })
    && fit_stmts(pd.statements, name, pd.statements@.len())
    && ids_fit(occ_proc(pd, name), offset as int)
}
//@extract lsp4spl/src/features/references.rs :: fn find_vars :: closure |(pd, offset)|
//@ rewrite vec_extend filter_map_collect flat_map_collect string_eq_str
//@ lift pub fn find_vars_in_proc(pd: &ProcedureDeclaration, offset: usize, name: &str) -> (r: Vec<Identifier>)
//@ sig
    requires fit_proc(*pd, name@, offset),
    ensures r@ == ids_plus(occ_proc(*pd, name@), offset as int), //# find_vars::declaration_and_every_use_in_the_procedure
//@ closure |param| : &Reference<ParameterDeclaration>
 -> (out: Option<Identifier>)
                    requires match param.reference { ParameterDeclaration::Valid { doc, is_ref, name: n, type_expr, info } => n is Some ==> range_fits(n->0.info.range, param.offset as int), _ => true },
                    ensures out == param_decl_occ(*param, name@),
//@ after_closure |param|
, Ghost(|p: Reference<ParameterDeclaration>| param_decl_occ(p, name@))
//@ closure |vd| : &Reference<VariableDeclaration>
 -> (out: Option<Identifier>)
                    requires match vd.reference { VariableDeclaration::Valid { doc, name: n, type_expr, info } => n is Some ==> range_fits(n->0.info.range, vd.offset as int), _ => true },
                    ensures out == var_decl_occ(*vd, name@),
//@ after_closure |vd|
, Ghost(|v: Reference<VariableDeclaration>| var_decl_occ(v, name@))
//@ closure |stmt| : &Reference<Statement>
 -> (out: Vec<Identifier>)
                    requires fit_stmt(stmt.reference, name@) && ids_fit(occ_stmt(stmt.reference, name@), stmt.offset as int),
                    ensures out@ == ids_plus(occ_stmt(stmt.reference, name@), stmt.offset as int),
//@ after_closure |stmt|
, Ghost(|s: Reference<Statement>| ids_plus(occ_stmt(s.reference, name@), s.offset as int))
//@ before "let stmt_idents: Vec<_> ="
proof { assert forall|i: int| 0 <= i < pd.statements@.len() implies fit_stmt((#[trigger] pd.statements@[i]).reference, name@) && ids_fit(occ_stmt(pd.statements@[i].reference, name@), pd.statements@[i].offset as int) by { lemma_fit_stmts(pd.statements, name@, pd.statements@.len(), i); } }
            
//@ before "idents.shift(offset)"
proof { lemma_flat_occ_stmts(pd.statements, name@, |s: Reference<Statement>| ids_plus(occ_stmt(s.reference, name@), s.offset as int), pd.statements@.len()); }
            
//@end

// ---------- find_procs: calls of a procedure in every statement shape, and its declaration
pub open spec fn pocc_stmt(s: Statement, name: Seq<char>) -> Seq<Identifier>
    decreases s, 0nat
{
    match s {
        Statement::Block(b) => pocc_stmts(b.statements, name, b.statements@.len()),
        Statement::Call(c) => if c.name.value@ == name { seq![c.name] } else { Seq::empty() },
        Statement::If(i) => (match i.if_branch { Some(b) => ids_plus(pocc_stmt(b.reference, name), b.offset as int), None => Seq::empty() })
            + (match i.else_branch { Some(b) => ids_plus(pocc_stmt(b.reference, name), b.offset as int), None => Seq::empty() }),
        Statement::While(w) => match w.statement { Some(b) => ids_plus(pocc_stmt(b.reference, name), b.offset as int), None => Seq::empty() },
        _ => Seq::empty(),
    }
}
pub open spec fn pocc_stmts(v: Vec<Reference<Statement>>, name: Seq<char>, n: nat) -> Seq<Identifier>
    decreases v, n
{
    if n == 0 || n > v@.len() { Seq::empty() } else { pocc_stmts(v, name, (n - 1) as nat) + ids_plus(pocc_stmt(v@[n - 1].reference, name), v@[n - 1].offset as int) }
}
pub open spec fn pfit_stmt(s: Statement, name: Seq<char>) -> bool
    decreases s, 0nat
{
    match s {
        Statement::Block(b) => pfit_stmts(b.statements, name, b.statements@.len()),
        Statement::If(i) => (match i.if_branch { Some(b) => pfit_stmt(b.reference, name) && ids_fit(pocc_stmt(b.reference, name), b.offset as int), None => true })
            && (match i.else_branch { Some(b) => pfit_stmt(b.reference, name) && ids_fit(pocc_stmt(b.reference, name), b.offset as int), None => true }),
        Statement::While(w) => match w.statement { Some(b) => pfit_stmt(b.reference, name) && ids_fit(pocc_stmt(b.reference, name), b.offset as int), None => true },
        _ => true,
    }
}
pub open spec fn pfit_stmts(v: Vec<Reference<Statement>>, name: Seq<char>, n: nat) -> bool
    decreases v, n
{
    if n == 0 || n > v@.len() { true } else { pfit_stmts(v, name, (n - 1) as nat) && pfit_stmt(v@[n - 1].reference, name) && ids_fit(pocc_stmt(v@[n - 1].reference, name), v@[n - 1].offset as int) }
}
pub proof fn lemma_flat_pocc_stmts(v: Vec<Reference<Statement>>, name: Seq<char>, g: spec_fn(Reference<Statement>) -> Seq<Identifier>, n: nat)
    requires n <= v@.len(), forall|s: Reference<Statement>| #[trigger] g(s) == ids_plus(pocc_stmt(s.reference, name), s.offset as int),
    ensures flat_ids(v@, g, n) == pocc_stmts(v, name, n), //# lemma_flat_pocc_stmts
    decreases n
{ if n > 0 { lemma_flat_pocc_stmts(v, name, g, (n - 1) as nat); } }
pub proof fn lemma_pfit_stmts(v: Vec<Reference<Statement>>, name: Seq<char>, n: nat, i: int)
    requires pfit_stmts(v, name, n), n <= v@.len(), 0 <= i < n,
    ensures pfit_stmt(v@[i].reference, name) && ids_fit(pocc_stmt(v@[i].reference, name), v@[i].offset as int), //# lemma_pfit_stmts
    decreases n
{ if i < n - 1 { lemma_pfit_stmts(v, name, (n - 1) as nat, i); } }
//@extract lsp4spl/src/features/references.rs :: fn find_procs :: fn find_in_statement
//@ rename find_in_statement find_procs_in_statement
//@ rewrite vec_extend flat_map_collect map_or_inline string_eq_str
//@ ret r
//@ attr
    #[verifier::exec_allows_no_decreases_clause]
//@ sig
        requires pfit_stmt(*stmt, name@),
        ensures
            r@ == pocc_stmt(*stmt, name@), //# find_procs::find_in_statement::exactly_the_calls_in_every_statement_shape
//@ before "flat_map_collect(&b.statements"
{ proof { assert forall|i: int| 0 <= i < b.statements@.len() implies pfit_stmt((#[trigger] b.statements@[i]).reference, name@) && ids_fit(pocc_stmt(b.statements@[i].reference, name@), b.statements@[i].offset as int) by { lemma_pfit_stmts(b.statements, name@, b.statements@.len(), i); } }
                let r_ = 
//@ before ",\n            Statement::Call(c)"
; proof { lemma_flat_pocc_stmts(b.statements, name@, |s: Reference<Statement>| ids_plus(pocc_stmt(s.reference, name@), s.offset as int), b.statements@.len()); } r_ }
//@ closure |stmt| : &Reference<Statement>
 -> (out: Vec<Identifier>)
                    requires pfit_stmt(stmt.reference, name@) && ids_fit(pocc_stmt(stmt.reference, name@), stmt.offset as int),
                    ensures out@ == ids_plus(pocc_stmt(stmt.reference, name@), stmt.offset as int),
//@ after_closure |stmt|
, Ghost(|s: Reference<Statement>| ids_plus(pocc_stmt(s.reference, name@), s.offset as int))
//@end
/// "rename returns one edit per occurrence of that binding (declaration included)": the procedure's own name, then the calls in its body
pub open spec fn pocc_proc(pd: ProcedureDeclaration, name: Seq<char>) -> Seq<Identifier> {
    (match pd.name { Some(id) => if id.value@ == name { seq![id] } else { Seq::empty() }, None => Seq::empty() }) + pocc_stmts(pd.statements, name, pd.statements@.len())
}
//@extract lsp4spl/src/features/references.rs :: fn find_procs :: closure |(pd, offset)|
//@ rename find_in_statement find_procs_in_statement
//@ rewrite vec_extend flat_map_collect string_eq_str
//@ lift pub fn find_procs_in_proc(pd: &ProcedureDeclaration, offset: usize, name: &str) -> (r: Vec<Identifier>)
//@ sig
    requires pfit_stmts(pd.statements, name@, pd.statements@.len()), ids_fit(pocc_proc(*pd, name@), offset as int),
    ensures r@ == ids_plus(pocc_proc(*pd, name@), offset as int), //# find_procs::declaration_and_every_call_in_the_procedure
//@ closure |stmt| : &Reference<Statement>
 -> (out: Vec<Identifier>)
                    requires pfit_stmt(stmt.reference, name@) && ids_fit(pocc_stmt(stmt.reference, name@), stmt.offset as int),
                    ensures out@ == ids_plus(pocc_stmt(stmt.reference, name@), stmt.offset as int),
//@ after_closure |stmt|
, Ghost(|s: Reference<Statement>| ids_plus(pocc_stmt(s.reference, name@), s.offset as int))
//@ before "let new_idents: Vec<_> ="
proof { assert forall|i: int| 0 <= i < pd.statements@.len() implies pfit_stmt((#[trigger] pd.statements@[i]).reference, name@) && ids_fit(pocc_stmt(pd.statements@[i].reference, name@), pd.statements@[i].offset as int) by { lemma_pfit_stmts(pd.statements, name@, pd.statements@.len(), i); } }
            
//@ before "idents.shift(offset)"
proof { lemma_flat_pocc_stmts(pd.statements, name@, |s: Reference<Statement>| ids_plus(pocc_stmt(s.reference, name@), s.offset as int), pd.statements@.len()); }
            
//@end

// ---------- find_types::get_ident_in_type_expr: the type name at the bottom of a (nested) array type, with all offsets
/// the named type a type expression bottoms out in, displaced by every Reference offset on the way (relative to the
/// Reference that holds `t`'s own Reference)
pub open spec fn ident_of_texpr(t: Reference<TypeExpression>) -> Option<Identifier>
    decreases t
{
    match (match t.reference {
        TypeExpression::NamedType(ident) => Some(ident),
        TypeExpression::ArrayType { size, base_type, info } => match base_type { Some(b) => ident_of_texpr(*b), None => None },
    }) {
        Some(id) => Some(id_plus(id, t.offset as int)),
        None => None,
    }
}
pub open spec fn texpr_fits(t: Reference<TypeExpression>) -> bool
    decreases t
{
    (match t.reference {
        TypeExpression::NamedType(ident) => true,
        TypeExpression::ArrayType { size, base_type, info } => match base_type { Some(b) => texpr_fits(*b), None => true },
    }) && (match (match t.reference {
        TypeExpression::NamedType(ident) => Some(ident),
        TypeExpression::ArrayType { size, base_type, info } => match base_type { Some(b) => ident_of_texpr(*b), None => None },
    }) { Some(id) => range_fits(id.info.range, t.offset as int), None => true })
}
//@extract spl_frontend/src/ast.rs :: impl<T> AsRef<T> for Reference<T>
//@ ret r fn as_ref
//@ sig fn as_ref
        ensures *r == self.reference,
//@end
//@extract lsp4spl/src/features/references.rs :: fn find_types :: fn get_ident_in_type_expr
//@ rewrite and_then_inline map_inline box_as_ref
//@ ret r
//@ sig
        requires texpr_fits(*type_expr),
        ensures
            r == ident_of_texpr(*type_expr), //# get_ident_in_type_expr::named_type_with_all_offsets
        decreases type_expr
//@end

pub proof fn witness_refs(id: Identifier) {
    let v = Variable::NamedVariable(id);
    assert(offsets_fit_var(v, id.value@));
    assert(occ_var(v, id.value@) == seq![id]);
}
}
fn main() {}
