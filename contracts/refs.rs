// unit `refs` — C13, expression level: find_vars::{find_in_variable, find_in_expression}
use vstd::prelude::*;
use std::ops::Range;
use std::ops::Deref;
verus! {
//@include shims.rs
//@include types_error.rs
//@include types_tokens.rs
//@include types_ast.rs
//@include inc_shiftable.rs
//@include inc_reference.rs

// ---------- spec vocabulary (statement of C13: "exactly the occurrences ... variables used inside parenthesised,
// negated and index expressions"; ranges are relative to the nearest enclosing Reference, ast.rs)
/// an identifier displaced by d: name and attached errors kept, range moved
pub open spec fn id_plus(id: Identifier, d: int) -> Identifier {
    Identifier { value: id.value, info: AstInfo { range: range_plus(id.info.range, d), errors: id.info.errors } }
}
pub open spec fn ids_plus(s: Seq<Identifier>, d: int) -> Seq<Identifier> {
    Seq::new(s.len(), |i: int| id_plus(s[i], d))
}
pub open spec fn ids_fit(s: Seq<Identifier>, d: int) -> bool {
    forall|i: int| 0 <= i < s.len() ==> range_fits((#[trigger] s[i]).info.range, d)
}
/// occurrences of `name` in a variable, relative to the Reference the variable lives in
pub open spec fn occ_var(v: Variable, name: Seq<char>) -> Seq<Identifier>
    decreases v
{
    match v {
        Variable::NamedVariable(id) => if id.value@ == name { seq![id] } else { Seq::empty() },
        Variable::ArrayAccess(a) => occ_var(*a.array, name) + (match a.index {
            Some(ix) => ids_plus(occ_expr(ix.reference, name), ix.offset as int),
            None => Seq::empty(),
        }),
    }
}
pub open spec fn occ_expr(e: Expression, name: Seq<char>) -> Seq<Identifier>
    decreases e
{
    match e {
        Expression::Variable(v) => occ_var(v, name),
        Expression::Binary(b) => occ_expr(*b.lhs, name) + occ_expr(*b.rhs, name),
        Expression::Bracketed(b) => occ_expr(*b.expr, name),
        Expression::Unary(u) => occ_expr(*u.expr, name),
        Expression::IntLiteral(_) => Seq::empty(),
        Expression::Error(_) => Seq::empty(),
    }
}
/// every index reference can be applied without overflow (data invariant of a parsed tree: positions are token indices)
pub open spec fn offsets_fit_var(v: Variable, name: Seq<char>) -> bool
    decreases v
{
    match v {
        Variable::NamedVariable(id) => true,
        Variable::ArrayAccess(a) => offsets_fit_var(*a.array, name) && (match a.index {
            Some(ix) => offsets_fit_expr(ix.reference, name) && ids_fit(occ_expr(ix.reference, name), ix.offset as int),
            None => true,
        }),
    }
}
pub open spec fn offsets_fit_expr(e: Expression, name: Seq<char>) -> bool
    decreases e
{
    match e {
        Expression::Variable(v) => offsets_fit_var(v, name),
        Expression::Binary(b) => offsets_fit_expr(*b.lhs, name) && offsets_fit_expr(*b.rhs, name),
        Expression::Bracketed(b) => offsets_fit_expr(*b.expr, name),
        Expression::Unary(u) => offsets_fit_expr(*u.expr, name),
        Expression::IntLiteral(_) => true,
        Expression::Error(_) => true,
    }
}

// ---------- shims / assumed std behaviour
//~assume derived Clone for Identifier is structural (R1: derives are dropped, `clone` returns an equal value)
impl Clone for Identifier {
    #[verifier::external_body]
    fn clone(&self) -> (r: Self)
        ensures r == *self,
    { unimplemented!() }
}
#[verifier::external_body]
pub fn string_eq_str(a: &String, b: &str) -> (r: bool)
    ensures r == (a@ == b@),
{ a == b }
#[verifier::external_body]
pub fn vec_extend(a: &mut Vec<Identifier>, b: Vec<Identifier>)
    ensures final(a)@ == old(a)@ + b@,
{ a.extend(b) }

// ---------- Shiftable for AstInfo / Identifier / Vec<Identifier> (the latter with its `map` behind the iterator shim)
//@extract spl_frontend/src/ast.rs :: impl Shiftable for AstInfo
//@ open
    open spec fn shift_ok(self, offset: usize) -> bool { range_fits(self.range, offset as int) }
    open spec fn shifted(self, offset: usize, r: Self) -> bool { r == (AstInfo { range: range_plus(self.range, offset as int), errors: self.errors }) }
//@end
//@extract spl_frontend/src/ast.rs :: impl Shiftable for Identifier
//@ open
    open spec fn shift_ok(self, offset: usize) -> bool { range_fits(self.info.range, offset as int) }
    open spec fn shifted(self, offset: usize, r: Self) -> bool { r == id_plus(self, offset as int) }
//@end
//~assume `v.into_iter().map(f).collect()` applies f to every element in order (std iterator semantics; R6)
#[verifier::external_body]
pub fn vec_map_collect<F: Fn(Identifier) -> Identifier>(v: Vec<Identifier>, f: F) -> (r: Vec<Identifier>)
    requires forall|i: int| 0 <= i < v@.len() ==> call_requires(f, (#[trigger] v@[i],)),
    ensures r@.len() == v@.len(), forall|i: int| 0 <= i < v@.len() ==> call_ensures(f, (v@[i],), #[trigger] r@[i]),
{ v.into_iter().map(f).collect() }
//@extract spl_frontend/src/ast.rs :: impl Shiftable for Vec<Identifier>
//@ rewrite map_collect
//@ open
    open spec fn shift_ok(self, offset: usize) -> bool { ids_fit(self@, offset as int) }
    open spec fn shifted(self, offset: usize, r: Self) -> bool { r@ == ids_plus(self@, offset as int) }
//@ closure |ident| : Identifier
 -> (out: Identifier)
            requires range_fits(ident.info.range, offset as int),
            ensures out == id_plus(ident, offset as int)
//@ before "vec_map_collect(self"
let r_ = 
//@ at_end fn shift
; proof { assert(r_@ =~= ids_plus(self@, offset as int)); } r_
//@end

// ---------- code under contract
//~not_decided termination of the recursive walks beyond what `decreases` states; the scoping dispatch and the handlers are in unit `refdispatch`, the cursor in unit `cursor`
//@extract lsp4spl/src/features/references.rs :: fn find_vars :: fn find_in_variable
//@ rewrite string_eq_str vec_extend
//@ ret r
//@ sig
        requires offsets_fit_var(*var, name@),
        ensures
            r@ == occ_var(*var, name@), //# find_in_variable::exactly_the_occurrences
        decreases var, 0nat
//@end
//@extract lsp4spl/src/features/references.rs :: fn find_vars :: fn find_in_expression
//@ rewrite vec_extend
//@ ret r
//@ sig
        requires offsets_fit_expr(*expr, name@),
        ensures
            r@ == occ_expr(*expr, name@), //# find_in_expression::exactly_the_occurrences
        decreases expr, 1nat
//@end

// ---------- statement level (find_vars::find_in_statement): every statement shape, with the accumulated Reference offsets
pub open spec fn opt_occ_expr(o: Option<Reference<Expression>>, name: Seq<char>) -> Seq<Identifier> {
    match o { Some(e) => ids_plus(occ_expr(e.reference, name), e.offset as int), None => Seq::empty() }
}
pub open spec fn occ_args(v: Vec<Reference<Expression>>, name: Seq<char>, n: nat) -> Seq<Identifier>
    decreases n
{
    if n == 0 || n > v@.len() { Seq::empty() } else { occ_args(v, name, (n - 1) as nat) + ids_plus(occ_expr(v@[n - 1].reference, name), v@[n - 1].offset as int) }
}
pub open spec fn occ_stmt(s: Statement, name: Seq<char>) -> Seq<Identifier>
    decreases s, 0nat
{
    match s {
        Statement::Assignment(a) => occ_var(a.variable, name) + opt_occ_expr(a.expr, name),
        Statement::Block(b) => occ_stmts(b.statements, name, b.statements@.len()),
        Statement::Call(c) => occ_args(c.arguments, name, c.arguments@.len()),
        Statement::If(i) => opt_occ_expr(i.condition, name)
            + (match i.if_branch { Some(b) => ids_plus(occ_stmt(b.reference, name), b.offset as int), None => Seq::empty() })
            + (match i.else_branch { Some(b) => ids_plus(occ_stmt(b.reference, name), b.offset as int), None => Seq::empty() }),
        Statement::While(w) => opt_occ_expr(w.condition, name)
            + (match w.statement { Some(b) => ids_plus(occ_stmt(b.reference, name), b.offset as int), None => Seq::empty() }),
        Statement::Empty(_) => Seq::empty(),
        Statement::Error(_) => Seq::empty(),
    }
}
pub open spec fn occ_stmts(v: Vec<Reference<Statement>>, name: Seq<char>, n: nat) -> Seq<Identifier>
    decreases v, n
{
    if n == 0 || n > v@.len() { Seq::empty() } else { occ_stmts(v, name, (n - 1) as nat) + ids_plus(occ_stmt(v@[n - 1].reference, name), v@[n - 1].offset as int) }
}
pub open spec fn fit_opt_expr(o: Option<Reference<Expression>>, name: Seq<char>) -> bool {
    match o { Some(e) => offsets_fit_expr(e.reference, name) && ids_fit(occ_expr(e.reference, name), e.offset as int), None => true }
}
pub open spec fn fit_stmt(s: Statement, name: Seq<char>) -> bool
    decreases s, 0nat
{
    match s {
        Statement::Assignment(a) => offsets_fit_var(a.variable, name) && fit_opt_expr(a.expr, name),
        Statement::Block(b) => fit_stmts(b.statements, name, b.statements@.len()),
        Statement::Call(c) => forall|i: int| 0 <= i < c.arguments@.len() ==> offsets_fit_expr((#[trigger] c.arguments@[i]).reference, name) && ids_fit(occ_expr(c.arguments@[i].reference, name), c.arguments@[i].offset as int),
        Statement::If(i) => fit_opt_expr(i.condition, name)
            && (match i.if_branch { Some(b) => fit_stmt(b.reference, name) && ids_fit(occ_stmt(b.reference, name), b.offset as int), None => true })
            && (match i.else_branch { Some(b) => fit_stmt(b.reference, name) && ids_fit(occ_stmt(b.reference, name), b.offset as int), None => true }),
        Statement::While(w) => fit_opt_expr(w.condition, name)
            && (match w.statement { Some(b) => fit_stmt(b.reference, name) && ids_fit(occ_stmt(b.reference, name), b.offset as int), None => true }),
        Statement::Empty(_) => true,
        Statement::Error(_) => true,
    }
}
pub open spec fn fit_stmts(v: Vec<Reference<Statement>>, name: Seq<char>, n: nat) -> bool
    decreases v, n
{
    if n == 0 || n > v@.len() { true } else { fit_stmts(v, name, (n - 1) as nat) && fit_stmt(v@[n - 1].reference, name) && ids_fit(occ_stmt(v@[n - 1].reference, name), v@[n - 1].offset as int) }
}
/// concatenation, in order, of g over the first n items
pub open spec fn flat_ids<T>(items: Seq<T>, g: spec_fn(T) -> Seq<Identifier>, n: nat) -> Seq<Identifier>
    decreases n
{
    if n == 0 || n > items.len() { Seq::empty() } else { flat_ids(items, g, (n - 1) as nat) + g(items[n - 1]) }
}
//~assume `xs.iter().flat_map(f).collect()` applies f to every element of xs in order and concatenates the results (std iterator semantics; R8)
#[verifier::external_body]
pub fn flat_map_collect<T, F: Fn(&T) -> Vec<Identifier>>(items: &Vec<T>, f: F, Ghost(g): Ghost<spec_fn(T) -> Seq<Identifier>>) -> (r: Vec<Identifier>)
    requires
        forall|i: int| 0 <= i < items@.len() ==> call_requires(f, (&#[trigger] items@[i],)),
        forall|i: int, out: Vec<Identifier>| 0 <= i < items@.len() && #[trigger] call_ensures(f, (&items@[i],), out) ==> out@ == g(items@[i]),
    ensures r@ == flat_ids(items@, g, items@.len()),
{ items.iter().flat_map(f).collect() }

pub proof fn lemma_flat_occ_stmts(v: Vec<Reference<Statement>>, name: Seq<char>, g: spec_fn(Reference<Statement>) -> Seq<Identifier>, n: nat)
    requires n <= v@.len(), forall|s: Reference<Statement>| #[trigger] g(s) == ids_plus(occ_stmt(s.reference, name), s.offset as int),
    ensures flat_ids(v@, g, n) == occ_stmts(v, name, n), //# lemma_flat_occ_stmts
    decreases n
{ if n > 0 { lemma_flat_occ_stmts(v, name, g, (n - 1) as nat); } }
pub proof fn lemma_flat_occ_args(v: Vec<Reference<Expression>>, name: Seq<char>, g: spec_fn(Reference<Expression>) -> Seq<Identifier>, n: nat)
    requires n <= v@.len(), forall|s: Reference<Expression>| #[trigger] g(s) == ids_plus(occ_expr(s.reference, name), s.offset as int),
    ensures flat_ids(v@, g, n) == occ_args(v, name, n), //# lemma_flat_occ_args
    decreases n
{ if n > 0 { lemma_flat_occ_args(v, name, g, (n - 1) as nat); } }
pub proof fn lemma_fit_stmts(v: Vec<Reference<Statement>>, name: Seq<char>, n: nat, i: int)
    requires fit_stmts(v, name, n), n <= v@.len(), 0 <= i < n,
    ensures fit_stmt(v@[i].reference, name) && ids_fit(occ_stmt(v@[i].reference, name), v@[i].offset as int), //# lemma_fit_stmts
    decreases n
{ if i < n - 1 { lemma_fit_stmts(v, name, (n - 1) as nat, i); } }

//@extract lsp4spl/src/features/references.rs :: fn find_vars :: fn find_in_statement
//@ rewrite vec_extend flat_map_collect map_or_inline
//@ ret r
//@ attr
    #[verifier::exec_allows_no_decreases_clause]
//@ sig
        requires fit_stmt(*stmt, name@),
        ensures
            r@ == occ_stmt(*stmt, name@), //# find_in_statement::exactly_the_occurrences_in_every_statement_shape
//@ before "flat_map_collect(&b.statements"
{ proof { assert forall|i: int| 0 <= i < b.statements@.len() implies fit_stmt((#[trigger] b.statements@[i]).reference, name@) && ids_fit(occ_stmt(b.statements@[i].reference, name@), b.statements@[i].offset as int) by { lemma_fit_stmts(b.statements, name@, b.statements@.len(), i); } }
                let r_ = 
//@ before ",\n            Statement::Call(c)"
; proof { lemma_flat_occ_stmts(b.statements, name@, |s: Reference<Statement>| ids_plus(occ_stmt(s.reference, name@), s.offset as int), b.statements@.len()); } r_ }
//@ before "flat_map_collect(&c.arguments"
{ let r_ = 
//@ before ",\n            Statement::If(i)"
; proof { lemma_flat_occ_args(c.arguments, name@, |s: Reference<Expression>| ids_plus(occ_expr(s.reference, name@), s.offset as int), c.arguments@.len()); } r_ }
//@ closure |stmt| : &Reference<Statement>
 -> (out: Vec<Identifier>)
                    requires fit_stmt(stmt.reference, name@) && ids_fit(occ_stmt(stmt.reference, name@), stmt.offset as int),
                    ensures out@ == ids_plus(occ_stmt(stmt.reference, name@), stmt.offset as int),
//@ after_closure |stmt|
, Ghost(|s: Reference<Statement>| ids_plus(occ_stmt(s.reference, name@), s.offset as int))
//@ closure |expr| : &Reference<Expression>
 -> (out: Vec<Identifier>)
                    requires offsets_fit_expr(expr.reference, name@) && ids_fit(occ_expr(expr.reference, name@), expr.offset as int),
                    ensures out@ == ids_plus(occ_expr(expr.reference, name@), expr.offset as int),
//@ after_closure |expr|
, Ghost(|s: Reference<Expression>| ids_plus(occ_expr(s.reference, name@), s.offset as int))
//@end

// ---------- find_vars, inside the procedure that declares the variable: declarations of parameters and locals, then every statement
pub open spec fn param_decl_occ(p: Reference<ParameterDeclaration>, name: Seq<char>) -> Option<Identifier> {
    match p.reference {
        ParameterDeclaration::Valid { doc, is_ref, name: n, type_expr, info } => match n { Some(id) => if id.value@ == name { Some(id_plus(id, p.offset as int)) } else { None }, None => None },
        ParameterDeclaration::Error(_) => None,
    }
}
pub open spec fn var_decl_occ(v: Reference<VariableDeclaration>, name: Seq<char>) -> Option<Identifier> {
    match v.reference {
        VariableDeclaration::Valid { doc, name: n, type_expr, info } => match n { Some(id) => if id.value@ == name { Some(id_plus(id, v.offset as int)) } else { None }, None => None },
        VariableDeclaration::Error(_) => None,
    }
}
/// the Some results of g over the first n items, in order
pub open spec fn filter_ids<T>(items: Seq<T>, g: spec_fn(T) -> Option<Identifier>, n: nat) -> Seq<Identifier>
    decreases n
{
    if n == 0 || n > items.len() { Seq::empty() } else { filter_ids(items, g, (n - 1) as nat) + (match g(items[n - 1]) { Some(id) => seq![id], None => Seq::empty() }) }
}
//~assume `xs.iter().filter_map(f).collect()` applies f to every element of xs in order and keeps the Some results (std iterator semantics; R8)
#[verifier::external_body]
pub fn filter_map_collect<T, F: Fn(&T) -> Option<Identifier>>(items: &Vec<T>, f: F, Ghost(g): Ghost<spec_fn(T) -> Option<Identifier>>) -> (r: Vec<Identifier>)
    requires
        forall|i: int| 0 <= i < items@.len() ==> call_requires(f, (&#[trigger] items@[i],)),
        forall|i: int, out: Option<Identifier>| 0 <= i < items@.len() && #[trigger] call_ensures(f, (&items@[i],), out) ==> out == g(items@[i]),
    ensures r@ == filter_ids(items@, g, items@.len()),
{ items.iter().filter_map(f).collect() }
/// "one edit per occurrence of that binding (declaration included)": the declaring parameter / local, then the uses in order
pub open spec fn occ_proc(pd: ProcedureDeclaration, name: Seq<char>) -> Seq<Identifier> {
    filter_ids(pd.parameters@, |p: Reference<ParameterDeclaration>| param_decl_occ(p, name), pd.parameters@.len())
    + filter_ids(pd.variable_declarations@, |v: Reference<VariableDeclaration>| var_decl_occ(v, name), pd.variable_declarations@.len())
    + occ_stmts(pd.statements, name, pd.statements@.len())
}
pub open spec fn fit_proc(pd: ProcedureDeclaration, name: Seq<char>, offset: usize) -> bool {
    (forall|i: int| 0 <= i < pd.parameters@.len() ==> match (#[trigger] pd.parameters@[i]).reference {
        ParameterDeclaration::Valid { doc, is_ref, name: n, type_expr, info } => n is Some ==> range_fits(n->0.info.range, pd.parameters@[i].offset as int), _ => true })
    && (forall|i: int| 0 <= i < pd.variable_declarations@.len() ==> match (#[trigger] pd.variable_declarations@[i]).reference {
        VariableDeclaration::Valid { doc, name: n, type_expr, info } => n is Some ==> range_fits(n->0.info.range, pd.variable_declarations@[i].offset as int), _ => true })
    && fit_stmts(pd.statements, name, pd.statements@.len())
    && ids_fit(occ_proc(pd, name), offset as int)
}
//@extract lsp4spl/src/features/references.rs :: fn find_vars :: closure |(pd, offset)|
//@ rewrite vec_extend filter_map_collect flat_map_collect string_eq_str
//@ lift pub fn find_vars_in_proc(pd: &ProcedureDeclaration, offset: usize, name: &str) -> (r: Vec<Identifier>)
//@ sig
    requires fit_proc(*pd, name@, offset),
    ensures r@ == ids_plus(occ_proc(*pd, name@), offset as int), //# find_vars::declaration_and_every_use_in_the_procedure
//@ closure |param| : &Reference<ParameterDeclaration>
 -> (out: Option<Identifier>)
                    requires match param.reference { ParameterDeclaration::Valid { doc, is_ref, name: n, type_expr, info } => n is Some ==> range_fits(n->0.info.range, param.offset as int), _ => true },
                    ensures out == param_decl_occ(*param, name@),
//@ after_closure |param|
, Ghost(|p: Reference<ParameterDeclaration>| param_decl_occ(p, name@))
//@ closure |vd| : &Reference<VariableDeclaration>
 -> (out: Option<Identifier>)
                    requires match vd.reference { VariableDeclaration::Valid { doc, name: n, type_expr, info } => n is Some ==> range_fits(n->0.info.range, vd.offset as int), _ => true },
                    ensures out == var_decl_occ(*vd, name@),
//@ after_closure |vd|
, Ghost(|v: Reference<VariableDeclaration>| var_decl_occ(v, name@))
//@ closure |stmt| : &Reference<Statement>
 -> (out: Vec<Identifier>)
                    requires fit_stmt(stmt.reference, name@) && ids_fit(occ_stmt(stmt.reference, name@), stmt.offset as int),
                    ensures out@ == ids_plus(occ_stmt(stmt.reference, name@), stmt.offset as int),
//@ after_closure |stmt|
, Ghost(|s: Reference<Statement>| ids_plus(occ_stmt(s.reference, name@), s.offset as int))
//@ before "let stmt_idents: Vec<_> ="
proof { assert forall|i: int| 0 <= i < pd.statements@.len() implies fit_stmt((#[trigger] pd.statements@[i]).reference, name@) && ids_fit(occ_stmt(pd.statements@[i].reference, name@), pd.statements@[i].offset as int) by { lemma_fit_stmts(pd.statements, name@, pd.statements@.len(), i); } }
            
//@ before "idents.shift(offset)"
proof { lemma_flat_occ_stmts(pd.statements, name@, |s: Reference<Statement>| ids_plus(occ_stmt(s.reference, name@), s.offset as int), pd.statements@.len()); }
            
//@end


// ---------- find_vars as a whole: the first procedure declaration of that name, nowhere else
pub open spec fn as_proc(gd: Reference<GlobalDeclaration>) -> Option<(ProcedureDeclaration, usize)> {
    match gd.reference { GlobalDeclaration::Procedure(pd) => Some((pd, gd.offset)), _ => None }
}
pub open spec fn is_named(pd: ProcedureDeclaration, proc_name: Seq<char>) -> bool { pd.name is Some && pd.name->0.value@ == proc_name }
/// the first procedure declaration called `proc_name`, with the offset of its Reference
pub open spec fn first_proc(gds: Seq<Reference<GlobalDeclaration>>, proc_name: Seq<char>, from: int) -> Option<(ProcedureDeclaration, usize)>
    decreases gds.len() - from
{
    if from < 0 || from >= gds.len() { None }
    else { match as_proc(gds[from]) { Some(x) => if is_named(x.0, proc_name) { Some(x) } else { first_proc(gds, proc_name, from + 1) }, None => first_proc(gds, proc_name, from + 1) } }
}
//~assume `xs.iter().filter_map(f).find(p)` returns the first Some result of f, in order, that satisfies p (std iterator semantics; R8)
#[verifier::external_body]
pub fn filter_map_find<'a, F: Fn(&'a Reference<GlobalDeclaration>) -> Option<(&'a ProcedureDeclaration, usize)>, P: Fn(&(&'a ProcedureDeclaration, usize)) -> bool>(
        xs: &'a Vec<Reference<GlobalDeclaration>>, f: F, p: P, Ghost(proc_name): Ghost<Seq<char>>) -> (r: Option<(&'a ProcedureDeclaration, usize)>)
    requires
        forall|i: int| 0 <= i < xs@.len() ==> call_requires(f, (&#[trigger] xs@[i],)),
        forall|i: int, o: Option<(&'a ProcedureDeclaration, usize)>| 0 <= i < xs@.len() && #[trigger] call_ensures(f, (&xs@[i],), o) ==> match as_proc(xs@[i]) { Some(x) => o is Some && *(o->0).0 == x.0 && (o->0).1 == x.1, None => o is None },
        forall|x: (&'a ProcedureDeclaration, usize)| #[trigger] call_requires(p, (&x,)),
        forall|x: (&'a ProcedureDeclaration, usize), b: bool| #[trigger] call_ensures(p, (&x,), b) ==> b == is_named(*x.0, proc_name),
    ensures match first_proc(xs@, proc_name, 0) { Some(x) => r is Some && *(r->0).0 == x.0 && (r->0).1 == x.1, None => r is None },
{ xs.iter().filter_map(f).find(p) }
/// "the occurrences bound to the same declaration" of a parameter or local variable: those inside the first procedure declaration of that name
pub open spec fn vars_of(name: Seq<char>, proc_name: Seq<char>, gds: Seq<Reference<GlobalDeclaration>>) -> Seq<Identifier> {
    match first_proc(gds, proc_name, 0) { Some(x) => ids_plus(occ_proc(x.0, name), x.1 as int), None => Seq::empty() }
}
pub open spec fn vars_fit(name: Seq<char>, proc_name: Seq<char>, gds: Seq<Reference<GlobalDeclaration>>) -> bool {
    match first_proc(gds, proc_name, 0) { Some(x) => fit_proc(x.0, name, x.1), None => true }
}
//@extract lsp4spl/src/features/references.rs :: fn find_vars
//@ rewrite find_vars_closure_to_call procs_filter_map_find map_or_else_inline pd_tuple_param_to_let map_or_inline string_eq_proc_name
//@ ret r
//@ sig
    requires vars_fit(name@, proc_name@, program.global_declarations@),
    ensures r@ == vars_of(name@, proc_name@, program.global_declarations@), //# find_vars::in_the_first_procedure_of_that_name_and_nowhere_else
//@ assume_body fn find_in_variable
//@ assume_body fn find_in_expression
//@ assume_body fn find_in_statement
//@ closure |gd| : &Reference<GlobalDeclaration>
 -> (o: Option<(&ProcedureDeclaration, usize)>)
            ensures match as_proc(*gd) { Some(x) => o is Some && *(o->0).0 == x.0 && (o->0).1 == x.1, None => o is None }
//@ closure |pd_| : &(&ProcedureDeclaration, usize)
 -> (b: bool)
            ensures b == is_named(*pd_.0, proc_name@)
//@ after_closure |pd_|
, Ghost(proc_name@)
//@end
// ---------- find_procs: calls of a procedure in every statement shape, and its declaration
pub open spec fn pocc_stmt(s: Statement, name: Seq<char>) -> Seq<Identifier>
    decreases s, 0nat
{
    match s {
        Statement::Block(b) => pocc_stmts(b.statements, name, b.statements@.len()),
        Statement::Call(c) => if c.name.value@ == name { seq![c.name] } else { Seq::empty() },
        Statement::If(i) => (match i.if_branch { Some(b) => ids_plus(pocc_stmt(b.reference, name), b.offset as int), None => Seq::empty() })
            + (match i.else_branch { Some(b) => ids_plus(pocc_stmt(b.reference, name), b.offset as int), None => Seq::empty() }),
        Statement::While(w) => match w.statement { Some(b) => ids_plus(pocc_stmt(b.reference, name), b.offset as int), None => Seq::empty() },
        _ => Seq::empty(),
    }
}
pub open spec fn pocc_stmts(v: Vec<Reference<Statement>>, name: Seq<char>, n: nat) -> Seq<Identifier>
    decreases v, n
{
    if n == 0 || n > v@.len() { Seq::empty() } else { pocc_stmts(v, name, (n - 1) as nat) + ids_plus(pocc_stmt(v@[n - 1].reference, name), v@[n - 1].offset as int) }
}
pub open spec fn pfit_stmt(s: Statement, name: Seq<char>) -> bool
    decreases s, 0nat
{
    match s {
        Statement::Block(b) => pfit_stmts(b.statements, name, b.statements@.len()),
        Statement::If(i) => (match i.if_branch { Some(b) => pfit_stmt(b.reference, name) && ids_fit(pocc_stmt(b.reference, name), b.offset as int), None => true })
            && (match i.else_branch { Some(b) => pfit_stmt(b.reference, name) && ids_fit(pocc_stmt(b.reference, name), b.offset as int), None => true }),
        Statement::While(w) => match w.statement { Some(b) => pfit_stmt(b.reference, name) && ids_fit(pocc_stmt(b.reference, name), b.offset as int), None => true },
        _ => true,
    }
}
pub open spec fn pfit_stmts(v: Vec<Reference<Statement>>, name: Seq<char>, n: nat) -> bool
    decreases v, n
{
    if n == 0 || n > v@.len() { true } else { pfit_stmts(v, name, (n - 1) as nat) && pfit_stmt(v@[n - 1].reference, name) && ids_fit(pocc_stmt(v@[n - 1].reference, name), v@[n - 1].offset as int) }
}
pub proof fn lemma_flat_pocc_stmts(v: Vec<Reference<Statement>>, name: Seq<char>, g: spec_fn(Reference<Statement>) -> Seq<Identifier>, n: nat)
    requires n <= v@.len(), forall|s: Reference<Statement>| #[trigger] g(s) == ids_plus(pocc_stmt(s.reference, name), s.offset as int),
    ensures flat_ids(v@, g, n) == pocc_stmts(v, name, n), //# lemma_flat_pocc_stmts
    decreases n
{ if n > 0 { lemma_flat_pocc_stmts(v, name, g, (n - 1) as nat); } }
pub proof fn lemma_pfit_stmts(v: Vec<Reference<Statement>>, name: Seq<char>, n: nat, i: int)
    requires pfit_stmts(v, name, n), n <= v@.len(), 0 <= i < n,
    ensures pfit_stmt(v@[i].reference, name) && ids_fit(pocc_stmt(v@[i].reference, name), v@[i].offset as int), //# lemma_pfit_stmts
    decreases n
{ if i < n - 1 { lemma_pfit_stmts(v, name, (n - 1) as nat, i); } }
//@extract lsp4spl/src/features/references.rs :: fn find_procs :: fn find_in_statement
//@ rename find_in_statement find_procs_in_statement
//@ rewrite vec_extend flat_map_collect map_or_inline string_eq_str
//@ ret r
//@ attr
    #[verifier::exec_allows_no_decreases_clause]
//@ sig
        requires pfit_stmt(*stmt, name@),
        ensures
            r@ == pocc_stmt(*stmt, name@), //# find_procs::find_in_statement::exactly_the_calls_in_every_statement_shape
//@ before "flat_map_collect(&b.statements"
{ proof { assert forall|i: int| 0 <= i < b.statements@.len() implies pfit_stmt((#[trigger] b.statements@[i]).reference, name@) && ids_fit(pocc_stmt(b.statements@[i].reference, name@), b.statements@[i].offset as int) by { lemma_pfit_stmts(b.statements, name@, b.statements@.len(), i); } }
                let r_ = 
//@ before ",\n            Statement::Call(c)"
; proof { lemma_flat_pocc_stmts(b.statements, name@, |s: Reference<Statement>| ids_plus(pocc_stmt(s.reference, name@), s.offset as int), b.statements@.len()); } r_ }
//@ closure |stmt| : &Reference<Statement>
 -> (out: Vec<Identifier>)
                    requires pfit_stmt(stmt.reference, name@) && ids_fit(pocc_stmt(stmt.reference, name@), stmt.offset as int),
                    ensures out@ == ids_plus(pocc_stmt(stmt.reference, name@), stmt.offset as int),
//@ after_closure |stmt|
, Ghost(|s: Reference<Statement>| ids_plus(pocc_stmt(s.reference, name@), s.offset as int))
//@end
/// "rename returns one edit per occurrence of that binding (declaration included)": the procedure's own name, then the calls in its body
pub open spec fn pocc_proc(pd: ProcedureDeclaration, name: Seq<char>) -> Seq<Identifier> {
    (match pd.name { Some(id) => if id.value@ == name { seq![id] } else { Seq::empty() }, None => Seq::empty() }) + pocc_stmts(pd.statements, name, pd.statements@.len())
}
//@extract lsp4spl/src/features/references.rs :: fn find_procs :: closure |(pd, offset)|
//@ rename find_in_statement find_procs_in_statement
//@ rewrite vec_extend flat_map_collect string_eq_str
//@ lift pub fn find_procs_in_proc(pd: &ProcedureDeclaration, offset: usize, name: &str) -> (r: Vec<Identifier>)
//@ sig
    requires pfit_stmts(pd.statements, name@, pd.statements@.len()), ids_fit(pocc_proc(*pd, name@), offset as int),
    ensures r@ == ids_plus(pocc_proc(*pd, name@), offset as int), //# find_procs::declaration_and_every_call_in_the_procedure
//@ closure |stmt| : &Reference<Statement>
 -> (out: Vec<Identifier>)
                    requires pfit_stmt(stmt.reference, name@) && ids_fit(pocc_stmt(stmt.reference, name@), stmt.offset as int),
                    ensures out@ == ids_plus(pocc_stmt(stmt.reference, name@), stmt.offset as int),
//@ after_closure |stmt|
, Ghost(|s: Reference<Statement>| ids_plus(pocc_stmt(s.reference, name@), s.offset as int))
//@ before "let new_idents: Vec<_> ="
proof { assert forall|i: int| 0 <= i < pd.statements@.len() implies pfit_stmt((#[trigger] pd.statements@[i]).reference, name@) && ids_fit(pocc_stmt(pd.statements@[i].reference, name@), pd.statements@[i].offset as int) by { lemma_pfit_stmts(pd.statements, name@, pd.statements@.len(), i); } }
            
//@ before "idents.shift(offset)"
proof { lemma_flat_pocc_stmts(pd.statements, name@, |s: Reference<Statement>| ids_plus(pocc_stmt(s.reference, name@), s.offset as int), pd.statements@.len()); }
            
//@end


// ---------- find_procs as a whole: every procedure declaration, in source order
pub open spec fn all_procs(gds: Seq<Reference<GlobalDeclaration>>, name: Seq<char>, n: nat) -> Seq<Identifier>
    decreases n
{
    if n == 0 || n > gds.len() { Seq::empty() }
    else { all_procs(gds, name, (n - 1) as nat) + (match as_proc(gds[n - 1]) { Some(x) => ids_plus(pocc_proc(x.0, name), x.1 as int), None => Seq::empty() }) }
}
pub open spec fn all_procs_fit(gds: Seq<Reference<GlobalDeclaration>>, name: Seq<char>) -> bool {
    forall|i: int| 0 <= i < gds.len() ==> match as_proc(#[trigger] gds[i]) { Some(x) => pfit_stmts(x.0.statements, name, x.0.statements@.len()) && ids_fit(pocc_proc(x.0, name), x.1 as int), None => true }
}
//~assume `xs.iter().filter_map(f).flat_map(g).collect()` concatenates g over the Some results of f, in order (std iterator semantics; R8)
#[verifier::external_body]
pub fn filter_map_flat_map_collect<'a, F: Fn(&'a Reference<GlobalDeclaration>) -> Option<(&'a ProcedureDeclaration, usize)>, G: Fn((&'a ProcedureDeclaration, usize)) -> Vec<Identifier>>(
        xs: &'a Vec<Reference<GlobalDeclaration>>, f: F, g: G, Ghost(name): Ghost<Seq<char>>) -> (r: Vec<Identifier>)
    requires
        forall|i: int| 0 <= i < xs@.len() ==> call_requires(f, (&#[trigger] xs@[i],)),
        forall|i: int, o: Option<(&'a ProcedureDeclaration, usize)>| 0 <= i < xs@.len() && #[trigger] call_ensures(f, (&xs@[i],), o) ==> match as_proc(xs@[i]) { Some(x) => o is Some && *(o->0).0 == x.0 && (o->0).1 == x.1 && call_requires(g, (o->0,)), None => o is None },
        forall|x: (&'a ProcedureDeclaration, usize), v: Vec<Identifier>| #[trigger] call_ensures(g, (x,), v) ==> v@ == ids_plus(pocc_proc(*x.0, name), x.1 as int),
    ensures r@ == all_procs(xs@, name, xs@.len()),
{ xs.iter().filter_map(f).flat_map(g).collect() }
//@extract lsp4spl/src/features/references.rs :: fn find_procs
//@ rewrite find_procs_closure_to_call procs_filter_map_flat_map
//@ ret r
//@ sig
    requires all_procs_fit(program.global_declarations@, name@),
    ensures r@ == all_procs(program.global_declarations@, name@, program.global_declarations@.len()), //# find_procs::every_procedure_declaration_in_source_order
//@ assume_body fn find_in_statement
//@ closure |gd| : &Reference<GlobalDeclaration>
 -> (o: Option<(&ProcedureDeclaration, usize)>)
            ensures match as_proc(*gd) { Some(x) => o is Some && *(o->0).0 == x.0 && (o->0).1 == x.1, None => o is None }
//@ closure |pd_offset| : (&ProcedureDeclaration, usize)
 -> (v: Vec<Identifier>)
            requires pfit_stmts(pd_offset.0.statements, name@, pd_offset.0.statements@.len()) && ids_fit(pocc_proc(*pd_offset.0, name@), pd_offset.1 as int),
            ensures v@ == ids_plus(pocc_proc(*pd_offset.0, name@), pd_offset.1 as int)
//@ after_closure |pd_offset|
, Ghost(name@)
//@end
// ---------- find_types::get_ident_in_type_expr: the type name at the bottom of a (nested) array type, with all offsets
/// the named type a type expression bottoms out in, displaced by every Reference offset on the way (relative to the
/// Reference that holds `t`'s own Reference)
pub open spec fn ident_of_texpr(t: Reference<TypeExpression>) -> Option<Identifier>
    decreases t
{
    match (match t.reference {
        TypeExpression::NamedType(ident) => Some(ident),
        TypeExpression::ArrayType { size, base_type, info } => match base_type { Some(b) => ident_of_texpr(*b), None => None },
    }) {
        Some(id) => Some(id_plus(id, t.offset as int)),
        None => None,
    }
}
pub open spec fn texpr_fits(t: Reference<TypeExpression>) -> bool
    decreases t
{
    (match t.reference {
        TypeExpression::NamedType(ident) => true,
        TypeExpression::ArrayType { size, base_type, info } => match base_type { Some(b) => texpr_fits(*b), None => true },
    }) && (match (match t.reference {
        TypeExpression::NamedType(ident) => Some(ident),
        TypeExpression::ArrayType { size, base_type, info } => match base_type { Some(b) => ident_of_texpr(*b), None => None },
    }) { Some(id) => range_fits(id.info.range, t.offset as int), None => true })
}
//@extract spl_frontend/src/ast.rs :: impl<T> AsRef<T> for Reference<T>
//@ ret r fn as_ref
//@ sig fn as_ref
        ensures *r == self.reference,
//@end
//@extract lsp4spl/src/features/references.rs :: fn find_types :: fn get_ident_in_type_expr
//@ rewrite and_then_inline map_inline box_as_ref
//@ ret r
//@ sig
        requires texpr_fits(*type_expr),
        ensures
            r == ident_of_texpr(*type_expr), //# get_ident_in_type_expr::named_type_with_all_offsets
        decreases type_expr
//@end


// ---------- find_types: what one global declaration contributes
pub open spec fn named(id: Option<Identifier>, name: Seq<char>) -> Seq<Identifier> {
    match id { Some(i) => if i.value@ == name { seq![i] } else { Seq::empty() }, None => Seq::empty() }
}
pub open spec fn keep_named(id: Option<Identifier>, name: Seq<char>) -> Option<Identifier> {
    match id { Some(i) => if i.value@ == name { Some(i) } else { None }, None => None }
}
/// the type name a parameter / variable declaration mentions, displaced by the declaration's Reference offset
pub open spec fn param_type_occ(p: Reference<ParameterDeclaration>) -> Option<Identifier> {
    match p.reference {
        ParameterDeclaration::Valid { doc, is_ref, name, type_expr: Some(t), info } => match ident_of_texpr(t) { Some(id) => Some(id_plus(id, p.offset as int)), None => None },
        _ => None,
    }
}
pub open spec fn var_type_occ(v: Reference<VariableDeclaration>) -> Option<Identifier> {
    match v.reference {
        VariableDeclaration::Valid { doc, name, type_expr: Some(t), info } => match ident_of_texpr(t) { Some(id) => Some(id_plus(id, v.offset as int)), None => None },
        _ => None,
    }
}
pub open spec fn param_type_fits(p: Reference<ParameterDeclaration>) -> bool {
    match p.reference {
        ParameterDeclaration::Valid { doc, is_ref, name, type_expr: Some(t), info } => texpr_fits(t) && match ident_of_texpr(t) { Some(id) => range_fits(id.info.range, p.offset as int), None => true },
        _ => true,
    }
}
pub open spec fn var_type_fits(v: Reference<VariableDeclaration>) -> bool {
    match v.reference {
        VariableDeclaration::Valid { doc, name, type_expr: Some(t), info } => texpr_fits(t) && match ident_of_texpr(t) { Some(id) => range_fits(id.info.range, v.offset as int), None => true },
        _ => true,
    }
}
/// "the other occurrences bound to the same declaration", for a type: its own name where it is declared, and every type annotation that bottoms out in it
pub open spec fn types_inner(gd: GlobalDeclaration, name: Seq<char>) -> Seq<Identifier> {
    match gd {
        GlobalDeclaration::Type(td) => named(td.name, name) + named(match td.type_expr { Some(t) => ident_of_texpr(t), None => None }, name),
        GlobalDeclaration::Procedure(pd) =>
            filter_ids(pd.parameters@, |p: Reference<ParameterDeclaration>| keep_named(param_type_occ(p), name), pd.parameters@.len())
            + filter_ids(pd.variable_declarations@, |v: Reference<VariableDeclaration>| keep_named(var_type_occ(v), name), pd.variable_declarations@.len()),
        GlobalDeclaration::Error(_) => Seq::empty(),
    }
}
pub open spec fn types_in_decl(gd: Reference<GlobalDeclaration>, name: Seq<char>) -> Seq<Identifier> { ids_plus(types_inner(gd.reference, name), gd.offset as int) }
pub open spec fn types_decl_fits(gd: Reference<GlobalDeclaration>, name: Seq<char>) -> bool {
    (match gd.reference {
        GlobalDeclaration::Type(td) => match td.type_expr { Some(t) => texpr_fits(t), None => true },
        GlobalDeclaration::Procedure(pd) => (forall|i: int| 0 <= i < pd.parameters@.len() ==> param_type_fits(#[trigger] pd.parameters@[i]))
            && (forall|i: int| 0 <= i < pd.variable_declarations@.len() ==> var_type_fits(#[trigger] pd.variable_declarations@[i])),
        GlobalDeclaration::Error(_) => true,
    }) && ids_fit(types_inner(gd.reference, name), gd.offset as int)
}
//~assume `xs.iter().filter_map(f).filter(p).collect()` keeps the Some results of f that satisfy p, in order (std iterator semantics; R8)
#[verifier::external_body]
pub fn filter_map_filter_collect<T, F: Fn(&T) -> Option<Identifier>, P: Fn(&Identifier) -> bool>(items: &Vec<T>, f: F, p: P, Ghost(gk): Ghost<spec_fn(T) -> Option<Identifier>>, Ghost(name): Ghost<Seq<char>>) -> (r: Vec<Identifier>)
    requires
        forall|i: int| 0 <= i < items@.len() ==> call_requires(f, (&#[trigger] items@[i],)),
        forall|i: int, out: Option<Identifier>| 0 <= i < items@.len() && #[trigger] call_ensures(f, (&items@[i],), out) ==> keep_named(out, name) == gk(items@[i]),
        forall|id: Identifier| #[trigger] call_requires(p, (&id,)),
        forall|id: Identifier, b: bool| #[trigger] call_ensures(p, (&id,), b) ==> b == (id.value@ == name),
    ensures r@ == filter_ids(items@, gk, items@.len()),
{ items.iter().filter_map(f).filter(p).collect() }
//@extract lsp4spl/src/features/references.rs :: fn find_types :: closure |gd|
//@ rewrite filter_map_filter_collect map_inline vec_extend string_eq_str
//@ lift pub fn find_types_in_decl(gd: &Reference<GlobalDeclaration>, name: &str) -> (r: Vec<Identifier>)
//@ sig
    requires types_decl_fits(*gd, name@),
    ensures r@ == types_in_decl(*gd, name@), //# find_types::the_declared_name_and_every_annotation_that_bottoms_out_in_it
//@ before "match gd.as_ref() {"
use GlobalDeclaration::*; // in scope at the closure's place in find_types
            
//@ before "idents\n                }\n                Procedure(pd)"
proof { assert(idents@ =~= types_inner(gd.reference, name@)); }
                    
//@ before "idents\n                }\n                Error(_)"
proof { assert(idents@ =~= types_inner(gd.reference, name@)); }
                    
//@ closure |param| : &Reference<ParameterDeclaration>
 -> (out: Option<Identifier>)
                            requires param_type_fits(*param),
                            ensures out == param_type_occ(*param),
//@ closure |vd| : &Reference<VariableDeclaration>
 -> (out: Option<Identifier>)
                            requires var_type_fits(*vd),
                            ensures out == var_type_occ(*vd),
//@ closure |ident| nth 0 of 2 : &Identifier
 -> (b: bool)
                            ensures b == (ident.value@ == name@)
//@ after_closure |ident| nth 0 of 2
, Ghost(|p: Reference<ParameterDeclaration>| keep_named(param_type_occ(p), name@)), Ghost(name@)
//@ closure |ident| nth 1 of 2 : &Identifier
 -> (b: bool)
                            ensures b == (ident.value@ == name@)
//@ after_closure |ident| nth 1 of 2
, Ghost(|v: Reference<VariableDeclaration>| keep_named(var_type_occ(v), name@)), Ghost(name@)
//@end

// ---------- find_types as a whole: every global declaration, in source order
pub open spec fn all_types_fit(gds: Seq<Reference<GlobalDeclaration>>, name: Seq<char>) -> bool {
    forall|i: int| 0 <= i < gds.len() ==> types_decl_fits(#[trigger] gds[i], name)
}
//@extract lsp4spl/src/features/references.rs :: fn find_types
//@ rewrite find_types_closure_to_call flat_map_collect
//@ ret r
//@ sig
    requires all_types_fit(program.global_declarations@, name@),
    ensures r@ == flat_ids(program.global_declarations@, |gd: Reference<GlobalDeclaration>| types_in_decl(gd, name@), program.global_declarations@.len()), //# find_types::every_global_declaration_in_source_order
//@ assume_body fn get_ident_in_type_expr
//@ closure |gd| : &Reference<GlobalDeclaration>
 -> (v: Vec<Identifier>)
            requires types_decl_fits(*gd, name@),
            ensures v@ == types_in_decl(*gd, name@)
//@ after_closure |gd|
, Ghost(|gd: Reference<GlobalDeclaration>| types_in_decl(gd, name@))
//@end
pub proof fn witness_refs(id: Identifier) {
    let v = Variable::NamedVariable(id);
    assert(offsets_fit_var(v, id.value@));
    assert(occ_var(v, id.value@) == seq![id]);
}
}
fn main() {}
