// unit `shift` — C07 (tail tokens are the old ones shifted, errors included), C03 (error displacement), C02
use vstd::prelude::*;
use std::ops::Range;
verus! {
//@include shims.rs
//@include types_error.rs
//@include types_tokens.rs

//@include inc_shiftable.rs

/// "the old token shifted by the length difference of the edit": kind and value kept, range and every attached
/// lexical error displaced by d  (statement of C07)
pub open spec fn token_moved(t: Token, d: int, r: Token) -> bool {
    r.token_type == t.token_type && r.range == range_plus(t.range, d) && r.errors@ =~= errs_plus(t.errors@, d)
}


//@extract spl_frontend/src/tokens.rs :: impl Shiftable for Token
//@ open
    open spec fn shift_ok(self, offset: usize) -> bool { range_fits(self.range, offset as int) && errs_fit(self.errors@, offset as int) }
    open spec fn shifted(self, offset: usize, r: Self) -> bool { token_moved(self, offset as int, r) }
//@end

// ---------- lexer::update::shift_token (signed displacement of the reusable tail)
//@extract spl_frontend/src/lexer.rs :: fn update :: fn shift_token
//@ ret r fn shift_token
//@ sig fn shift_token
        requires
            range_fits_i(token.range, offset as int), errs_fit_i(token.errors@, offset as int),
        ensures
            token_moved(token, offset as int, r), //# shift_token::tail_token_moved_with_errors
//@ rewrite usize_to_isize_expect isize_to_usize_expect
//@ ret out fn shift_range
//@ sig fn shift_range
            requires range_fits_i(range, offset as int),
            ensures out == range_plus(range, offset as int), //# shift_range::displaced
//@ before "token.errors {"
it: 
//@ loop 0 fn shift_token
            invariant
                it.seq() == token.errors@,
                errors@.len() == it.index@,
                errs_fit_i(token.errors@, offset as int),
                forall|i: int| 0 <= i < it.index@ ==> errors@[i] == err_plus(#[trigger] token.errors@[i], offset as int),
//@end

pub proof fn witness_shift() {
    let r: Range<usize> = 3usize..5usize;
    assert(r.shift_ok(4));
    assert(range_fits_i(r, -3));
}
}
fn main() {}
