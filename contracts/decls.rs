// unit `decls` — C03: the declaration and main-procedure rules of table/build.rs fire exactly when violated, once, on the
// offending name, against an abstract view of the symbol table (the tables are HashMaps)
use vstd::prelude::*;
use std::ops::Range;
use std::ops::{Deref, DerefMut};
use std::collections::HashMap;
use std::fmt::Debug;
verus! {
//@include shims.rs
//@include types_error.rs
//@include types_ast.rs
//@include inc_reference.rs
#[verifier::external_body]
pub fn string_clone(s: &String) -> (r: String)
    ensures r@ == s@,
{ s.clone() }

//~assume Range<usize>::clone returns an equal range (assume_specification through vstd's `cloned`)
pub assume_specification<Idx: Clone> [<Range<Idx> as Clone>::clone] (r: &Range<Idx>) -> (c: Range<Idx>)
    ensures cloned(r.start, c.start), cloned(r.end, c.end);

// ---------- symbol table types (table.rs), verbatim; the two HashMap-based tables are opaque to the verifier
//@extract spl_frontend/src/table.rs :: enum DataType
//@ rewrite drop_derive
//@end
//~assume derived Clone / PartialEq for DataType are structural (R1)
impl Clone for DataType {
    #[verifier::external_body]
    fn clone(&self) -> (r: Self)
        ensures r == *self,
    { unimplemented!() }
}
//@extract spl_frontend/src/table.rs :: struct TypeEntry
//@ rewrite drop_derive
//@end
//@extract spl_frontend/src/table.rs :: struct ProcedureEntry
//@ rewrite drop_derive
//@end
//@extract spl_frontend/src/table.rs :: struct VariableEntry
//@ rewrite drop_derive
//@end
//@extract spl_frontend/src/table.rs :: enum GlobalEntry
//@ rewrite drop_derive
//@end
//@extract spl_frontend/src/table.rs :: enum LocalEntry
//@ rewrite drop_derive
//@end
//@extract spl_frontend/src/table.rs :: enum Entry
//@ rewrite drop_derive
//@end
//@extract spl_frontend/src/table.rs :: struct GlobalTable
//@ rewrite drop_derive
//@ attr
#[verifier::external_body]
//@end
//@extract spl_frontend/src/table.rs :: struct LocalTable
//@ rewrite drop_derive
//@ attr
#[verifier::external_body]
//@end
//@extract spl_frontend/src/table.rs :: struct LookupTable
//@ rewrite drop_derive
//@end
/// abstract content of the tables
pub uninterp spec fn gmap(t: GlobalTable) -> Map<Seq<char>, GlobalEntry>;
pub uninterp spec fn lmap(t: LocalTable) -> Map<Seq<char>, LocalEntry>;
/// SPL scoping: the local scope is searched before the global one
pub open spec fn lookup_spec<'a>(t: LookupTable<'a>, key: Seq<char>) -> Option<Entry<'a>> {
    if t.local_table is Some && lmap(*t.local_table->0).contains_key(key) {
        Some(match lmap(*t.local_table->0)[key] { LocalEntry::Variable(v) => Entry::Variable(&v), LocalEntry::Parameter(p) => Entry::Parameter(&p) })
    } else if t.global_table is Some && gmap(*t.global_table->0).contains_key(key) {
        Some(match gmap(*t.global_table->0)[key] { GlobalEntry::Type(x) => Entry::Type(&x), GlobalEntry::Procedure(p) => Entry::Procedure(&p) })
    } else { None }
}
//~assume LookupTable::lookup (closures over two HashMap lookups) returns lookup_spec: local scope first, then global
//@extract spl_frontend/src/table.rs :: impl<'a> LookupTable<'a> :: fn lookup
//@ ret r
//@ sig
        ensures r == lookup_spec(*self, key@),
//@ assume_body fn lookup
//@end

// ---------- helpers of ast.rs / error.rs used by the builder
pub trait ToRange {
    spec fn range_spec(&self) -> Range<usize>;
    fn to_range(&self) -> (r: Range<usize>)
        ensures r == self.range_spec();
}
//@extract spl_frontend/src/ast.rs :: impl ToRange for AstInfo
//@ open
    open spec fn range_spec(&self) -> Range<usize> { self.range }
//@end
//@extract spl_frontend/src/ast.rs :: derive ToRange :: struct Identifier
//@ open
    open spec fn range_spec(&self) -> Range<usize> { self.info.range }
//@end
//@extract spl_frontend/src/ast.rs :: impl AstInfo :: fn append_error
//@ sig
        ensures final(self).range == old(self).range && final(self).errors@ == old(self).errors@.push(error),
//@end
//@extract spl_frontend/src/ast.rs :: impl<T> DerefMut for Reference<T>
//@ ret r fn deref_mut
//@ sig fn deref_mut
        ensures *r == old(self).reference, final(self).offset == old(self).offset, final(self).reference == *final(r),
//@end
//@extract spl_frontend/src/ast.rs :: impl<T> AsMut<T> for Reference<T>
//@ ret r fn as_mut
//@ sig fn as_mut
        ensures *r == old(self).reference, final(self).offset == old(self).offset, final(self).reference == *final(r),
//@end
//@extract spl_frontend/src/error.rs :: impl From<BuildErrorMessage> for ErrorMessage
//@end
impl vstd::std_specs::convert::FromSpecImpl<BuildErrorMessage> for ErrorMessage {
    open spec fn obeys_from_spec() -> bool { true }
    open spec fn from_spec(v: BuildErrorMessage) -> ErrorMessage { ErrorMessage::BuildErrorMessage(v) }
}
//@extract spl_frontend/src/error.rs :: impl Identifier :: fn to_error
//@ rewrite string_clone_self_value
//@ ret e
//@ sig
        requires self.info.range.end > 0, forall|s: String| call_requires(msg, (s,)),
        ensures
            e.0.end == self.info.range.end && e.0.start == self.info.range.end - 1, //# Identifier::to_error::on_the_name_token
            exists|s: String, t: T| s@ == self.value@ && call_ensures(msg, (s,), t) && call_ensures(<T as Into<ErrorMessage>>::into, (t,), e.1), //# Identifier::to_error::message_built_from_the_name
//@end

//~assume `impl Display for Identifier` writes exactly the identifier's name (ToString); String == &str compares contents
#[verifier::external_body]
pub fn ident_to_string(id: &Identifier) -> (r: String)
    ensures r@ == id.value@,
{ id.value.clone() }   // what `impl Display for Identifier` + ToString produce
#[verifier::external_body]
pub fn string_is(a: &String, b: &str) -> (r: bool)
    ensures r == (a@ == b@),
{ a == b }

// ---------- shared vocabulary for "exactly these diagnostics were appended"
pub open spec fn appended(o: AstInfo, n: AstInfo, k: int) -> bool {
    n.range == o.range && n.errors@.len() == o.errors@.len() + k && n.errors@.subrange(0, o.errors@.len() as int) == o.errors@
}
pub open spec fn info_grew(o: AstInfo, n: AstInfo) -> bool {
    n.errors@.len() >= o.errors@.len() && appended(o, n, n.errors@.len() - o.errors@.len())
}
pub open spec fn tail(o: AstInfo, n: AstInfo) -> Seq<SplError> {
    n.errors@.subrange(o.errors@.len() as int, n.errors@.len() as int)
}
/// a build diagnostic of the given kind about `name`
pub open spec fn is_build_msg(m: ErrorMessage, kind: int, name: Seq<char>) -> bool {
    m matches ErrorMessage::BuildErrorMessage(bm) && match bm {
        BuildErrorMessage::UndefinedType(s) => kind == 0 && s@ == name,
        BuildErrorMessage::NotAType(s) => kind == 1 && s@ == name,
        BuildErrorMessage::RedeclarationAsType(s) => kind == 2 && s@ == name,
        BuildErrorMessage::MustBeAReferenceParameter(s) => kind == 3 && s@ == name,
        BuildErrorMessage::RedeclarationAsProcedure(s) => kind == 4 && s@ == name,
        BuildErrorMessage::RedeclarationAsParameter(s) => kind == 5 && s@ == name,
        BuildErrorMessage::RedeclarationAsVariable(s) => kind == 6 && s@ == name,
        _ => false,
    }
}
/// exactly one diagnostic of that kind, on the identifier's own token (the last token of its range)
pub open spec fn one_on_name(errs: Seq<SplError>, id: Identifier, kind: int) -> bool {
    errs.len() == 1 && errs[0].0.end == id.info.range.end && errs[0].0.start == id.info.range.end - 1 && is_build_msg(errs[0].1, kind, id.value@)
}

// ---------- type expressions: get_data_type
pub open spec fn int_name() -> Seq<char> { seq!['i', 'n', 't'] }
/// Type-name rule: `int` is predefined; a name bound to a type denotes that type; a name bound to something else gets exactly
/// one "is not a type", an unbound name exactly one "undefined type", on the name's own token; it then denotes no type.
pub open spec fn type_name_rule_ok(entry: Option<Entry>, id: Identifier, errs: Seq<SplError>) -> bool {
    if id.value@ == int_name() { errs.len() == 0 }
    else { match entry {
        Some(Entry::Type(_)) => errs.len() == 0,
        Some(_) => one_on_name(errs, id, 1),
        None => one_on_name(errs, id, 0),
    } }
}
pub open spec fn named_texpr_type(id: Identifier, table: LookupTable) -> Option<DataType> {
    if id.value@ == int_name() { Some(DataType::Int) }
    else { match lookup_spec(table, id.value@) { Some(Entry::Type(te)) => te.data_type, _ => None } }
}
pub open spec fn texpr_wf(t: TypeExpression) -> bool
    decreases t
{
    match t {
        TypeExpression::NamedType(id) => id.info.range.end > 0,
        TypeExpression::ArrayType { size, base_type, info } => match base_type { Some(b) => texpr_wf(b.reference), None => true },
    }
}
/// effect of resolving a type expression: only names get diagnostics, everything else is unchanged
pub open spec fn texpr_post(o: TypeExpression, n: TypeExpression, table: LookupTable) -> bool
    decreases o
{
    match (o, n) {
        (TypeExpression::NamedType(a), TypeExpression::NamedType(b)) => b.value == a.value && info_grew(a.info, b.info)
            && type_name_rule_ok(lookup_spec(table, a.value@), a, tail(a.info, b.info)),
        (TypeExpression::ArrayType { size: sa, base_type: ba, info: ia }, TypeExpression::ArrayType { size: sb, base_type: bb, info: ib }) =>
            sa == sb && ia == ib && match (ba, bb) {
                (Some(x), Some(y)) => x.offset == y.offset && texpr_post(x.reference, y.reference, table),
                (None, None) => true,
                _ => false,
            },
        _ => false,
    }
}
/// the type a type expression denotes when declared by `caller` (array types are equal only if created by the same declaration)
pub open spec fn is_texpr_type(t: TypeExpression, caller: Option<Identifier>, table: LookupTable, r: Option<DataType>) -> bool
    decreases t
{
    match t {
        TypeExpression::NamedType(id) => r == named_texpr_type(id, table),
        TypeExpression::ArrayType { size, base_type, info } => match caller {
            None => r is None,
            Some(c) => r matches Some(dt) && dt matches DataType::Array { size: s, base_type: bt, creator: cr }
                && s == (match size { Some(l) => l.value, None => None }) && cr@ == c.value@
                && match base_type {
                    None => bt is None,
                    Some(b) => match bt { Some(inner) => is_texpr_type(b.reference, caller, table, Some(*inner)), None => is_texpr_type(b.reference, caller, table, None) },
                },
        },
    }
}
//@extract spl_frontend/src/table/build.rs :: fn get_data_type
//@ rewrite and_then_inline map_inline eta_expand_variant_ctor box_as_mut ident_to_string string_is_literal
//@ ret r
//@ attr
#[verifier::exec_allows_no_decreases_clause]
//@ after "NamedType(name) => {"
                let ghost on = *name;
                proof {
                    reveal_strlit("int");
                    assert("int"@ =~= int_name());
                    assert(on.info.errors@.subrange(0, on.info.errors@.len() as int) =~= on.info.errors@);
                    assert(tail(on.info, on.info) =~= Seq::<SplError>::empty());
                }
//@ before "None\n                    }\n                } else {"
proof {
                            assert(name.info.errors@.subrange(0, on.info.errors@.len() as int) =~= on.info.errors@);
                            assert(tail(on.info, name.info) =~= seq![name.info.errors@[on.info.errors@.len() as int]]);
                        }
                        
//@ before "None\n                }\n            }\n        }"
proof {
                        assert(name.info.errors@.subrange(0, on.info.errors@.len() as int) =~= on.info.errors@);
                        assert(tail(on.info, name.info) =~= seq![name.info.errors@[on.info.errors@.len() as int]]);
                    }
                    
//@ sig
    requires type_expr is Some ==> texpr_wf(old(type_expr->0).reference),
    ensures
        type_expr is Some ==> final(type_expr->0).offset == old(type_expr->0).offset && texpr_post(old(type_expr->0).reference, final(type_expr->0).reference, *table), //# get_data_type::type_name_rules
        type_expr is Some ==> is_texpr_type(old(type_expr->0).reference, match caller { Some(c) => Some(*c), None => None }, *table, r), //# get_data_type::denoted_type
        type_expr is None ==> r is None,
//@end

// ---------- the tables as abstract maps: "first declaration wins"
//@extract spl_frontend/src/error.rs :: struct KeyAlreadyExistsError
//@ rewrite drop_derive
//@end
//@extract spl_frontend/src/table.rs :: trait SymbolTable
//@ open
    spec fn content(&self) -> Map<Seq<char>, Self::Value>;
//@ ret r fn lookup
//@ sig fn lookup
        ensures match r { Some(v) => self.content().contains_key(key@) && *v == self.content()[key@], None => !self.content().contains_key(key@) },
//@ ret r fn enter
//@ sig fn enter
        ensures match r {
            Ok(_) => !old(self).content().contains_key(key@) && final(self).content() == old(self).content().insert(key@, value),
            Err(_) => old(self).content().contains_key(key@) && final(self).content() == old(self).content(),
        },
//@end
//~assume `impl SymbolTable for GlobalTable / LocalTable` (HashMap::get / HashMap::entry) behave as a map from names to entries in which an occupied key is never overwritten
//@extract spl_frontend/src/table.rs :: impl SymbolTable for GlobalTable
//@ open
    open spec fn content(&self) -> Map<Seq<char>, GlobalEntry> { gmap(*self) }
//@ assume_body fn lookup
//@ assume_body fn enter
//@end
//@extract spl_frontend/src/table.rs :: impl SymbolTable for LocalTable
//@ open
    open spec fn content(&self) -> Map<Seq<char>, LocalEntry> { lmap(*self) }
//@ assume_body fn lookup
//@ assume_body fn enter
//@end
//~assume derived Clone for Identifier / VariableEntry is structural (R1)
impl Clone for Identifier {
    #[verifier::external_body]
    fn clone(&self) -> (r: Self)
        ensures r == *self,
    { unimplemented!() }
}
impl Clone for VariableEntry {
    #[verifier::external_body]
    fn clone(&self) -> (r: Self)
        ensures r == *self,
    { unimplemented!() }
}
pub open spec fn range_plus(r: Range<usize>, d: int) -> Range<usize> { ((r.start + d) as usize)..((r.end + d) as usize) }
pub trait Shiftable: Sized {
    spec fn shift_ok(self, offset: usize) -> bool;
    spec fn shifted(self, offset: usize, r: Self) -> bool;
    fn shift(self, offset: usize) -> (r: Self)
        requires self.shift_ok(offset),
        ensures self.shifted(offset, r);
}
//@extract spl_frontend/src/lib.rs :: impl Shiftable for Range<usize>
//@ open
    open spec fn shift_ok(self, offset: usize) -> bool { self.start + offset <= usize::MAX && self.end + offset <= usize::MAX }
    open spec fn shifted(self, offset: usize, r: Self) -> bool { r == range_plus(self, offset as int) }
//@end
//@extract spl_frontend/src/ast.rs :: derive ToRange :: struct TypeDeclaration
//@ open
    open spec fn range_spec(&self) -> Range<usize> { self.info.range }
//@end
//~assume get_documentation (`docs.concat()`) only reads the doc comments; its result does not influence any rule
//@extract spl_frontend/src/table/build.rs :: fn get_documentation
//@ assume_body fn get_documentation
//@end

// ---------- the builder trait and the type declaration rule
pub open spec fn main_name() -> Seq<char> { seq!['m', 'a', 'i', 'n'] }
pub open spec fn is_main_not_a_procedure(m: ErrorMessage) -> bool {
    m matches ErrorMessage::BuildErrorMessage(bm) && bm is MainIsNotAProcedure
}
pub open spec fn global_lookup<'a>(table: &'a GlobalTable) -> LookupTable<'a> { LookupTable { local_table: None, global_table: Some(table) } }
/// Type declaration rules: a type named `main` gets exactly one "`main` is not a procedure" on its name and declares nothing;
/// otherwise its type expression is resolved in the global scope, and the name is entered unless it is already declared, in
/// which case it gets exactly one "redeclaration as type" on the name's own token and the table stays as it is.
pub open spec fn tdec_post(o: TypeDeclaration, n: TypeDeclaration, ot: GlobalTable, nt: GlobalTable, offset: usize) -> bool {
    &&& n.info == o.info && n.doc == o.doc
    &&& match (o.name, n.name) {
        (None, None) => n.type_expr == o.type_expr && gmap(nt) == gmap(ot),
        (Some(a), Some(b)) => b.value == a.value && info_grew(a.info, b.info) && (
            if a.value@ == main_name() {
                n.type_expr == o.type_expr && gmap(nt) == gmap(ot)
                && tail(a.info, b.info).len() == 1 && tail(a.info, b.info)[0].0 == a.info.range && is_main_not_a_procedure(tail(a.info, b.info)[0].1)
            } else {
                &&& match (o.type_expr, n.type_expr) {
                    (Some(x), Some(y)) => y.offset == x.offset && texpr_post(x.reference, y.reference, global_lookup(&ot)),
                    (None, None) => true,
                    _ => false,
                }
                &&& if gmap(ot).contains_key(a.value@) {
                    gmap(nt) == gmap(ot) && one_on_name(tail(a.info, b.info), a, 2)
                } else {
                    &&& tail(a.info, b.info).len() == 0
                    &&& gmap(nt).dom() == gmap(ot).dom().insert(a.value@)
                    &&& forall|k: Seq<char>| gmap(ot).contains_key(k) ==> gmap(nt)[k] == gmap(ot)[k]
                    &&& gmap(nt)[a.value@] matches GlobalEntry::Type(te) && te.name == a && te.range == range_plus(o.info.range, offset as int)
                        && (match o.type_expr { Some(x) => is_texpr_type(x.reference, Some(a), global_lookup(&ot), te.data_type), None => te.data_type is None })
                }
            }),
        _ => false,
    }
}
//@extract spl_frontend/src/table/build.rs :: trait TableBuilder
//@ after "trait TableBuilder"
: Sized
//@ open
    spec fn pre(&self, offset: usize) -> bool;
    spec fn post(o: Self, n: Self, ot: GlobalTable, nt: GlobalTable, offset: usize) -> bool;
//@ sig fn build
        requires old(self).pre(offset),
        ensures Self::post(*old(self), *final(self), *old(table), *final(table), offset), //# TableBuilder::build::exactly_the_prescribed_declaration_diagnostics_and_entries
//@end
pub open spec fn opt_texpr_wf(o: Option<Reference<TypeExpression>>) -> bool { match o { Some(t) => texpr_wf(t.reference), None => true } }
pub open spec fn opt_name_wf(o: Option<Identifier>) -> bool { match o { Some(n) => n.info.range.end > 0, None => true } }
//@extract spl_frontend/src/table/build.rs :: impl TableBuilder for TypeDeclaration
//@ rewrite eta_expand_variant_ctor ident_to_string string_is_literal
//@ open
    open spec fn pre(&self, offset: usize) -> bool { opt_name_wf(self.name) && opt_texpr_wf(self.type_expr) && self.info.range.start + offset <= usize::MAX && self.info.range.end + offset <= usize::MAX }
    open spec fn post(o: Self, n: Self, ot: GlobalTable, nt: GlobalTable, offset: usize) -> bool { tdec_post(o, n, ot, nt, offset) }
//@ after "if let Some(name) = self.name.as_mut() {"
            let ghost on = *name;
            proof {
                reveal_strlit("main");
                assert("main"@ =~= main_name());
                assert(on.info.errors@.subrange(0, on.info.errors@.len() as int) =~= on.info.errors@);
                assert(tail(on.info, on.info) =~= Seq::<SplError>::empty());
            }
//@ before "return;"
proof {
                    assert(name.info.errors@.subrange(0, on.info.errors@.len() as int) =~= on.info.errors@);
                    assert(tail(on.info, name.info) =~= seq![name.info.errors@[on.info.errors@.len() as int]]);
                }
                
//@ after "BuildErrorMessage::RedeclarationAsType(s) }));"
                proof {
                    assert(name.info.errors@.subrange(0, on.info.errors@.len() as int) =~= on.info.errors@);
                    assert(tail(on.info, name.info) =~= seq![name.info.errors@[on.info.errors@.len() as int]]);
                }
//@end
}
fn main() {}
