// unit `decls` — C03: the declaration and main-procedure rules of table/build.rs fire exactly when violated, once, on the
// offending name, against an abstract view of the symbol table (the tables are HashMaps)
use vstd::prelude::*;
use std::ops::Range;
use std::ops::{Deref, DerefMut};
use std::collections::HashMap;
use std::fmt::Debug;
verus! {
//@include shims.rs
//@include types_error.rs
//@include types_ast.rs
//@include inc_reference.rs
#[verifier::external_body]
pub fn string_clone(s: &String) -> (r: String)
    ensures r@ == s@,
{ s.clone() }

//~assume Range<usize>::clone returns an equal range (assume_specification through vstd's `cloned`)
pub assume_specification<Idx: Clone> [<Range<Idx> as Clone>::clone] (r: &Range<Idx>) -> (c: Range<Idx>)
    ensures cloned(r.start, c.start), cloned(r.end, c.end);

//@include inc_symtab.rs

// ---------- helpers of ast.rs / error.rs used by the builder
pub trait ToRange {
    spec fn range_spec(&self) -> Range<usize>;
    fn to_range(&self) -> (r: Range<usize>)
        ensures r == self.range_spec();
}
//@extract spl_frontend/src/ast.rs :: impl ToRange for AstInfo
//@ open
    open spec fn range_spec(&self) -> Range<usize> { self.range }
//@end
//@extract spl_frontend/src/ast.rs :: derive ToRange :: struct Identifier
//@ open
    open spec fn range_spec(&self) -> Range<usize> { self.info.range }
//@end
//@extract spl_frontend/src/ast.rs :: impl AstInfo :: fn append_error
//@ sig
        ensures final(self).range == old(self).range && final(self).errors@ == old(self).errors@.push(error),
//@end
//@extract spl_frontend/src/ast.rs :: impl<T> DerefMut for Reference<T>
//@ ret r fn deref_mut
//@ sig fn deref_mut
        ensures *r == old(self).reference, final(self).offset == old(self).offset, final(self).reference == *final(r),
//@end
//@extract spl_frontend/src/ast.rs :: impl<T> AsMut<T> for Reference<T>
//@ ret r fn as_mut
//@ sig fn as_mut
        ensures *r == old(self).reference, final(self).offset == old(self).offset, final(self).reference == *final(r),
//@end
//@extract spl_frontend/src/error.rs :: impl From<BuildErrorMessage> for ErrorMessage
//@end
impl vstd::std_specs::convert::FromSpecImpl<BuildErrorMessage> for ErrorMessage {
    open spec fn obeys_from_spec() -> bool { true }
    open spec fn from_spec(v: BuildErrorMessage) -> ErrorMessage { ErrorMessage::BuildErrorMessage(v) }
}
//@extract spl_frontend/src/error.rs :: impl Identifier :: fn to_error
//@ rewrite string_clone_self_value
//@ ret e
//@ sig
        requires self.info.range.end > 0, forall|s: String| call_requires(msg, (s,)),
        ensures
            e.0.end == self.info.range.end && e.0.start == self.info.range.end - 1, //# Identifier::to_error::on_the_name_token
            exists|s: String, t: T| s@ == self.value@ && call_ensures(msg, (s,), t) && call_ensures(<T as Into<ErrorMessage>>::into, (t,), e.1), //# Identifier::to_error::message_built_from_the_name
//@end

//~assume `impl Display for Identifier` writes exactly the identifier's name (ToString); String == &str compares contents
#[verifier::external_body]
pub fn ident_to_string(id: &Identifier) -> (r: String)
    ensures r@ == id.value@,
{ id.value.clone() }   // what `impl Display for Identifier` + ToString produce
#[verifier::external_body]
pub fn string_is(a: &String, b: &str) -> (r: bool)
    ensures r == (a@ == b@),
{ a == b }

// ---------- shared vocabulary for "exactly these diagnostics were appended"
pub open spec fn appended(o: AstInfo, n: AstInfo, k: int) -> bool {
    n.range == o.range && n.errors@.len() == o.errors@.len() + k && n.errors@.subrange(0, o.errors@.len() as int) == o.errors@
}
pub open spec fn info_grew(o: AstInfo, n: AstInfo) -> bool {
    n.errors@.len() >= o.errors@.len() && appended(o, n, n.errors@.len() - o.errors@.len())
}
pub open spec fn tail(o: AstInfo, n: AstInfo) -> Seq<SplError> {
    n.errors@.subrange(o.errors@.len() as int, n.errors@.len() as int)
}
/// a build diagnostic of the given kind about `name`
pub open spec fn is_build_msg(m: ErrorMessage, kind: int, name: Seq<char>) -> bool {
    m matches ErrorMessage::BuildErrorMessage(bm) && match bm {
        BuildErrorMessage::UndefinedType(s) => kind == 0 && s@ == name,
        BuildErrorMessage::NotAType(s) => kind == 1 && s@ == name,
        BuildErrorMessage::RedeclarationAsType(s) => kind == 2 && s@ == name,
        BuildErrorMessage::MustBeAReferenceParameter(s) => kind == 3 && s@ == name,
        BuildErrorMessage::RedeclarationAsProcedure(s) => kind == 4 && s@ == name,
        BuildErrorMessage::RedeclarationAsParameter(s) => kind == 5 && s@ == name,
        BuildErrorMessage::RedeclarationAsVariable(s) => kind == 6 && s@ == name,
        _ => false,
    }
}
/// exactly one diagnostic of that kind, on the identifier's own token (the last token of its range)
pub open spec fn one_on_name(errs: Seq<SplError>, id: Identifier, kind: int) -> bool {
    errs.len() == 1 && errs[0].0.end == id.info.range.end && errs[0].0.start == id.info.range.end - 1 && is_build_msg(errs[0].1, kind, id.value@)
}

// ---------- type expressions: get_data_type
pub open spec fn int_name() -> Seq<char> { seq!['i', 'n', 't'] }
/// Type-name rule: `int` is predefined; a name bound to a type denotes that type; a name bound to something else gets exactly
/// one "is not a type", an unbound name exactly one "undefined type", on the name's own token; it then denotes no type.
pub open spec fn type_name_rule_ok(entry: Option<Entry>, id: Identifier, errs: Seq<SplError>) -> bool {
    if id.value@ == int_name() { errs.len() == 0 }
    else { match entry {
        Some(Entry::Type(_)) => errs.len() == 0,
        Some(_) => one_on_name(errs, id, 1),
        None => one_on_name(errs, id, 0),
    } }
}
pub open spec fn named_texpr_type(id: Identifier, table: LookupTable) -> Option<DataType> {
    if id.value@ == int_name() { Some(DataType::Int) }
    else { match lookup_spec(table, id.value@) { Some(Entry::Type(te)) => te.data_type, _ => None } }
}
pub open spec fn texpr_wf(t: TypeExpression) -> bool
    decreases t
{
    match t {
        TypeExpression::NamedType(id) => id.info.range.end > 0,
        TypeExpression::ArrayType { size, base_type, info } => match base_type { Some(b) => texpr_wf(b.reference), None => true },
    }
}
/// effect of resolving a type expression: only names get diagnostics, everything else is unchanged
pub open spec fn texpr_post(o: TypeExpression, n: TypeExpression, table: LookupTable) -> bool
    decreases o
{
    match (o, n) {
        (TypeExpression::NamedType(a), TypeExpression::NamedType(b)) => b.value == a.value && info_grew(a.info, b.info)
            && type_name_rule_ok(lookup_spec(table, a.value@), a, tail(a.info, b.info)),
        (TypeExpression::ArrayType { size: sa, base_type: ba, info: ia }, TypeExpression::ArrayType { size: sb, base_type: bb, info: ib }) =>
            sa == sb && ia == ib && match (ba, bb) {
                (Some(x), Some(y)) => x.offset == y.offset && texpr_post(x.reference, y.reference, table),
                (None, None) => true,
                _ => false,
            },
        _ => false,
    }
}
/// the type a type expression denotes when declared by `caller` (array types are equal only if created by the same declaration)
pub open spec fn is_texpr_type(t: TypeExpression, caller: Option<Identifier>, table: LookupTable, r: Option<DataType>) -> bool
    decreases t
{
    match t {
        TypeExpression::NamedType(id) => r == named_texpr_type(id, table),
        TypeExpression::ArrayType { size, base_type, info } => match caller {
            None => r is None,
            Some(c) => r matches Some(dt) && dt matches DataType::Array { size: s, base_type: bt, creator: cr }
                && s == (match size { Some(l) => l.value, None => None }) && cr@ == c.value@
                && match base_type {
                    None => bt is None,
                    Some(b) => match bt { Some(inner) => is_texpr_type(b.reference, caller, table, Some(*inner)), None => is_texpr_type(b.reference, caller, table, None) },
                },
        },
    }
}
//@extract spl_frontend/src/table/build.rs :: fn get_data_type
//@ rewrite and_then_inline map_inline eta_expand_variant_ctor box_as_mut ident_to_string string_is_literal
//@ ret r
//@ attr
#[verifier::exec_allows_no_decreases_clause]
//@ after "NamedType(name) => {"
                let ghost on = *name;
                proof {
                    reveal_strlit("int");
                    assert("int"@ =~= int_name());
                    assert(on.info.errors@.subrange(0, on.info.errors@.len() as int) =~= on.info.errors@);
                    assert(tail(on.info, on.info) =~= Seq::<SplError>::empty());
                }
//@ before "None\n                    }\n                } else {"
proof {
                            assert(name.info.errors@.subrange(0, on.info.errors@.len() as int) =~= on.info.errors@);
                            assert(tail(on.info, name.info) =~= seq![name.info.errors@[on.info.errors@.len() as int]]);
                        }
                        
//@ before "None\n                }\n            }\n        }"
proof {
                        assert(name.info.errors@.subrange(0, on.info.errors@.len() as int) =~= on.info.errors@);
                        assert(tail(on.info, name.info) =~= seq![name.info.errors@[on.info.errors@.len() as int]]);
                    }
                    
//@ sig
    requires type_expr is Some ==> texpr_wf(old(type_expr->0).reference),
    ensures
        type_expr is Some ==> final(type_expr->0).offset == old(type_expr->0).offset && texpr_post(old(type_expr->0).reference, final(type_expr->0).reference, *table), //# get_data_type::type_name_rules
        type_expr is Some ==> is_texpr_type(old(type_expr->0).reference, match caller { Some(c) => Some(*c), None => None }, *table, r), //# get_data_type::denoted_type
        type_expr is None ==> r is None,
//@end

//~assume derived Clone for Identifier / VariableEntry is structural (R1)
impl Clone for Identifier {
    #[verifier::external_body]
    fn clone(&self) -> (r: Self)
        ensures r == *self,
    { unimplemented!() }
}
impl Clone for VariableEntry {
    #[verifier::external_body]
    fn clone(&self) -> (r: Self)
        ensures r == *self,
    { unimplemented!() }
}
pub open spec fn range_plus(r: Range<usize>, d: int) -> Range<usize> { ((r.start + d) as usize)..((r.end + d) as usize) }
pub trait Shiftable: Sized {
    spec fn shift_ok(self, offset: usize) -> bool;
    spec fn shifted(self, offset: usize, r: Self) -> bool;
    fn shift(self, offset: usize) -> (r: Self)
        requires self.shift_ok(offset),
        ensures self.shifted(offset, r);
}
//@extract spl_frontend/src/lib.rs :: impl Shiftable for Range<usize>
//@ open
    open spec fn shift_ok(self, offset: usize) -> bool { self.start + offset <= usize::MAX && self.end + offset <= usize::MAX }
    open spec fn shifted(self, offset: usize, r: Self) -> bool { r == range_plus(self, offset as int) }
//@end
//@extract spl_frontend/src/ast.rs :: derive ToRange :: struct TypeDeclaration
//@ open
    open spec fn range_spec(&self) -> Range<usize> { self.info.range }
//@end
//~assume get_documentation (`docs.concat()`) only reads the doc comments; its result does not influence any rule
//@extract spl_frontend/src/table/build.rs :: fn get_documentation
//@ assume_body fn get_documentation
//@end

// ---------- the builder trait and the type declaration rule
pub open spec fn main_name() -> Seq<char> { seq!['m', 'a', 'i', 'n'] }
pub open spec fn is_main_not_a_procedure(m: ErrorMessage) -> bool {
    m matches ErrorMessage::BuildErrorMessage(bm) && bm is MainIsNotAProcedure
}
pub open spec fn global_lookup<'a>(table: &'a GlobalTable) -> LookupTable<'a> { LookupTable { local_table: None, global_table: Some(table) } }
/// Type declaration rules: a type named `main` gets exactly one "`main` is not a procedure" on its name and declares nothing;
/// otherwise its type expression is resolved in the global scope, and the name is entered unless it is already declared, in
/// which case it gets exactly one "redeclaration as type" on the name's own token and the table stays as it is.
pub open spec fn tdec_post(o: TypeDeclaration, n: TypeDeclaration, ot: GlobalTable, nt: GlobalTable, offset: usize) -> bool {
    &&& n.info == o.info && n.doc == o.doc
    &&& match (o.name, n.name) {
        (None, None) => n.type_expr == o.type_expr && gmap(nt) == gmap(ot),
        (Some(a), Some(b)) => b.value == a.value && info_grew(a.info, b.info) && (
            if a.value@ == main_name() {
                n.type_expr == o.type_expr && gmap(nt) == gmap(ot)
                && tail(a.info, b.info).len() == 1 && tail(a.info, b.info)[0].0 == a.info.range && is_main_not_a_procedure(tail(a.info, b.info)[0].1)
            } else {
                &&& match (o.type_expr, n.type_expr) {
                    (Some(x), Some(y)) => y.offset == x.offset && texpr_post(x.reference, y.reference, global_lookup(&ot)),
                    (None, None) => true,
                    _ => false,
                }
                &&& if gmap(ot).contains_key(a.value@) {
                    gmap(nt) == gmap(ot) && one_on_name(tail(a.info, b.info), a, 2)
                } else {
                    &&& tail(a.info, b.info).len() == 0
                    &&& gmap(nt).dom() == gmap(ot).dom().insert(a.value@)
                    &&& forall|k: Seq<char>| gmap(ot).contains_key(k) ==> gmap(nt)[k] == gmap(ot)[k]
                    &&& gmap(nt)[a.value@] matches GlobalEntry::Type(te) && te.name == a && te.range == range_plus(o.info.range, offset as int)
                        && (match o.type_expr { Some(x) => is_texpr_type(x.reference, Some(a), global_lookup(&ot), te.data_type), None => te.data_type is None })
                }
            }),
        _ => false,
    }
}
//@extract spl_frontend/src/table/build.rs :: trait TableBuilder
//@ after "trait TableBuilder"
: Sized
//@ open
    spec fn pre(&self, t: GlobalTable, offset: usize) -> bool;
    spec fn post(o: Self, n: Self, ot: GlobalTable, nt: GlobalTable, offset: usize) -> bool;
//@ sig fn build
        requires old(self).pre(*old(table), offset),
        ensures Self::post(*old(self), *final(self), *old(table), *final(table), offset), //# TableBuilder::build::exactly_the_prescribed_declaration_diagnostics_and_entries
//@end
pub open spec fn opt_texpr_wf(o: Option<Reference<TypeExpression>>) -> bool { match o { Some(t) => texpr_wf(t.reference), None => true } }
pub open spec fn opt_name_wf(o: Option<Identifier>) -> bool { match o { Some(n) => n.info.range.end > 0, None => true } }
pub open spec fn tdec_pre(d: TypeDeclaration, offset: usize) -> bool {
    opt_name_wf(d.name) && opt_texpr_wf(d.type_expr) && d.info.range.start + offset <= usize::MAX && d.info.range.end + offset <= usize::MAX
}
//@extract spl_frontend/src/table/build.rs :: impl TableBuilder for TypeDeclaration
//@ rewrite eta_expand_variant_ctor ident_to_string string_is_literal
//@ open
    open spec fn pre(&self, t: GlobalTable, offset: usize) -> bool { tdec_pre(*self, offset) }
    open spec fn post(o: Self, n: Self, ot: GlobalTable, nt: GlobalTable, offset: usize) -> bool { tdec_post(o, n, ot, nt, offset) }
//@ after "if let Some(name) = self.name.as_mut() {"
            let ghost on = *name;
            proof {
                reveal_strlit("main");
                assert("main"@ =~= main_name());
                assert(on.info.errors@.subrange(0, on.info.errors@.len() as int) =~= on.info.errors@);
                assert(tail(on.info, on.info) =~= Seq::<SplError>::empty());
            }
//@ after "BuildErrorMessage::MainIsNotAProcedure.into(),\n                ));"

                proof {
                    assert(name.info.errors@.subrange(0, on.info.errors@.len() as int) =~= on.info.errors@);
                    assert(tail(on.info, name.info) =~= seq![name.info.errors@[on.info.errors@.len() as int]]);
                }

//@ after "BuildErrorMessage::RedeclarationAsType(s) }));"
                proof {
                    assert(name.info.errors@.subrange(0, on.info.errors@.len() as int) =~= on.info.errors@);
                    assert(tail(on.info, name.info) =~= seq![name.info.errors@[on.info.errors@.len() as int]]);
                }
//@end

// ---------- parameters and local variables of a procedure
//@extract spl_frontend/src/ast.rs :: impl<T: ToRange> ToRange for Reference<T>
//@ open
    open spec fn range_spec(&self) -> Range<usize> { self.reference.range_spec() }
//@end
pub open spec fn pdecl_info(p: ParameterDeclaration) -> AstInfo {
    match p { ParameterDeclaration::Valid { doc, is_ref, name, type_expr, info } => info, ParameterDeclaration::Error(info) => info }
}
pub open spec fn vdecl_info(v: VariableDeclaration) -> AstInfo {
    match v { VariableDeclaration::Valid { doc, name, type_expr, info } => info, VariableDeclaration::Error(info) => info }
}
//@extract spl_frontend/src/ast.rs :: derive ToRange :: enum ParameterDeclaration
//@ open
    open spec fn range_spec(&self) -> Range<usize> { pdecl_info(*self).range }
//@end
//@extract spl_frontend/src/ast.rs :: derive ToRange :: enum VariableDeclaration
//@ open
    open spec fn range_spec(&self) -> Range<usize> { vdecl_info(*self).range }
//@end
//@extract spl_frontend/src/table.rs :: impl DataType :: fn is_primitive
//@ ret b
//@ sig
        ensures b == (self is Int || self is Bool), //# DataType::is_primitive::int_or_bool
//@end
pub open spec fn opt_texpr_post(o: Option<Reference<TypeExpression>>, n: Option<Reference<TypeExpression>>, table: LookupTable) -> bool {
    match (o, n) {
        (Some(x), Some(y)) => y.offset == x.offset && texpr_post(x.reference, y.reference, table),
        (None, None) => true,
        _ => false,
    }
}
pub open spec fn opt_is_texpr_type(o: Option<Reference<TypeExpression>>, caller: Identifier, table: LookupTable, r: Option<DataType>) -> bool {
    match o { Some(x) => is_texpr_type(x.reference, Some(caller), table, r), None => r is None }
}
/// Parameter rules: a parameter of a non-primitive (array) type that is not `ref` gets exactly one "must be a reference
/// parameter"; a name already declared in this procedure gets exactly one "redeclaration as parameter" (and the first
/// declaration stays); both on the name's own token, in this order.
pub open spec fn param_errs_ok(errs: Seq<SplError>, id: Identifier, must_ref: bool, redecl: bool) -> bool {
    errs.len() == (if must_ref { 1int } else { 0int }) + (if redecl { 1int } else { 0int })
    && (must_ref ==> one_on_name(errs.subrange(0, 1), id, 3))
    && (redecl ==> one_on_name(errs.subrange(errs.len() - 1, errs.len() as int), id, 5))
}
pub open spec fn param_post(o: Reference<ParameterDeclaration>, n: Reference<ParameterDeclaration>, gt: GlobalTable, ol: LocalTable, nl: LocalTable, r: Option<VariableEntry>) -> bool {
    n.offset == o.offset && match (o.reference, n.reference) {
        (ParameterDeclaration::Error(a), ParameterDeclaration::Error(b)) => a == b && lmap(nl) == lmap(ol) && r is None,
        (ParameterDeclaration::Valid { doc: da, is_ref: ra, name: na, type_expr: ta, info: ia }, ParameterDeclaration::Valid { doc: db, is_ref: rb, name: nb, type_expr: tb, info: ib }) =>
            da == db && ra == rb && ia == ib && match (na, nb) {
                (None, None) => ta == tb && lmap(nl) == lmap(ol) && r is None,
                (Some(a), Some(b)) => {
                    &&& b.value == a.value && info_grew(a.info, b.info)
                    &&& opt_texpr_post(ta, tb, global_lookup(&gt))
                    &&& r matches Some(e) && e.name == a && e.is_ref == ra && e.range == range_plus(ia.range, o.offset as int)
                        && opt_is_texpr_type(ta, a, global_lookup(&gt), e.data_type)
                        && param_errs_ok(tail(a.info, b.info), a, e.data_type is Some && !(e.data_type->0 is Int || e.data_type->0 is Bool) && !ra, lmap(ol).contains_key(a.value@))
                        && (if lmap(ol).contains_key(a.value@) { lmap(nl) == lmap(ol) } else { lmap(nl) == lmap(ol).insert(a.value@, LocalEntry::Parameter(e)) })
                },
                _ => false,
            },
        _ => false,
    }
}
pub open spec fn pdecl_wf(p: Reference<ParameterDeclaration>) -> bool {
    pdecl_info(p.reference).range.start + p.offset <= usize::MAX && pdecl_info(p.reference).range.end + p.offset <= usize::MAX
    && match p.reference { ParameterDeclaration::Valid { doc, is_ref, name, type_expr, info } => opt_name_wf(name) && opt_texpr_wf(type_expr), _ => true }
}
//@extract spl_frontend/src/table/build.rs :: fn build_parameter
//@ rewrite map_inline eta_expand_variant_ctor ident_to_string
//@ ret r
//@ sig
    requires pdecl_wf(*old(param)),
    ensures param_post(*old(param), *final(param), *global_table, *old(local_table), *final(local_table), r), //# build_parameter::parameter_rules_and_entry
//@ before "let documentation = get_documentation(doc);"
let ghost on = *name;
            
//@ before "if let Some(data_type) = &param_entry.data_type {"
let ghost n0 = *name;
            
//@ before "if local_table"
let ghost n1 = *name;
            
//@ before "param_entry\n        }"
proof {
                let k0 = on.info.errors@.len() as int;
                assert(n0.info == on.info);
                assert(name.info.errors@.subrange(0, k0) =~= on.info.errors@);
                let t = tail(on.info, name.info);
                if n1.info.errors@.len() == k0 + 1 {
                    assert(t.subrange(0, 1) =~= seq![n1.info.errors@[k0]]);
                    assert(tail(on.info, n1.info) =~= seq![n1.info.errors@[k0]]);
                }
                if name.info.errors@.len() == n1.info.errors@.len() + 1 {
                    assert(t.subrange(t.len() - 1, t.len() as int) =~= seq![name.info.errors@[n1.info.errors@.len() as int]]);
                }
            }
            
//@end

pub open spec fn local_lookup<'a>(gt: &'a GlobalTable, lt: &'a LocalTable) -> LookupTable<'a> { LookupTable { local_table: Some(lt), global_table: Some(gt) } }
/// Variable declaration rule: the type is resolved with the procedure's own scope in front of the global one; a name already
/// declared in this procedure (as parameter or variable) gets exactly one "redeclaration as variable" on its own token and the
/// first declaration stays; otherwise the variable is entered with its type.
pub open spec fn var_post(o: Reference<VariableDeclaration>, n: Reference<VariableDeclaration>, gt: GlobalTable, ol: LocalTable, nl: LocalTable) -> bool {
    n.offset == o.offset && match (o.reference, n.reference) {
        (VariableDeclaration::Error(a), VariableDeclaration::Error(b)) => a == b && lmap(nl) == lmap(ol),
        (VariableDeclaration::Valid { doc: da, name: na, type_expr: ta, info: ia }, VariableDeclaration::Valid { doc: db, name: nb, type_expr: tb, info: ib }) =>
            da == db && ia == ib && match (na, nb) {
                (None, None) => ta == tb && lmap(nl) == lmap(ol),
                (Some(a), Some(b)) => {
                    &&& b.value == a.value && info_grew(a.info, b.info)
                    &&& opt_texpr_post(ta, tb, local_lookup(&gt, &ol))
                    &&& if lmap(ol).contains_key(a.value@) { lmap(nl) == lmap(ol) && one_on_name(tail(a.info, b.info), a, 6) }
                        else {
                            &&& tail(a.info, b.info).len() == 0
                            &&& lmap(nl).dom() == lmap(ol).dom().insert(a.value@)
                            &&& forall|k: Seq<char>| lmap(ol).contains_key(k) ==> lmap(nl)[k] == lmap(ol)[k]
                            &&& lmap(nl)[a.value@] matches LocalEntry::Variable(e) && e.name == a && !e.is_ref && e.range == range_plus(ia.range, o.offset as int)
                                && opt_is_texpr_type(ta, a, local_lookup(&gt, &ol), e.data_type)
                        }
                },
                _ => false,
            },
        _ => false,
    }
}
pub open spec fn vdecl_wf(v: Reference<VariableDeclaration>) -> bool {
    vdecl_info(v.reference).range.start + v.offset <= usize::MAX && vdecl_info(v.reference).range.end + v.offset <= usize::MAX
    && match v.reference { VariableDeclaration::Valid { doc, name, type_expr, info } => opt_name_wf(name) && opt_texpr_wf(type_expr), _ => true }
}
//@extract spl_frontend/src/table/build.rs :: fn build_variable
//@ rewrite eta_expand_variant_ctor ident_to_string
//@ sig
    requires vdecl_wf(*old(var)),
    ensures var_post(*old(var), *final(var), *global_table, *old(local_table), *final(local_table)), //# build_variable::variable_rule_and_entry
//@ before "let documentation = get_documentation(doc);"
let ghost on = *name;
        proof {
            assert(on.info.errors@.subrange(0, on.info.errors@.len() as int) =~= on.info.errors@);
            assert(tail(on.info, on.info) =~= Seq::<SplError>::empty());
        }
        
//@ after "BuildErrorMessage::RedeclarationAsVariable(s) }));"
            proof {
                assert(name.info.errors@.subrange(0, on.info.errors@.len() as int) =~= on.info.errors@);
                assert(tail(on.info, name.info) =~= seq![name.info.errors@[on.info.errors@.len() as int]]);
            }
//@end

// ---------- procedure declarations
//@extract spl_frontend/src/ast.rs :: derive ToRange :: struct ProcedureDeclaration
//@ open
    open spec fn range_spec(&self) -> Range<usize> { self.info.range }
//@end
//~assume derived Default for LocalTable is the empty table
#[verifier::external_body]
pub fn local_table_default() -> (r: LocalTable)
    ensures lmap(r) == Map::<Seq<char>, LocalEntry>::empty(),
{ LocalTable { entries: HashMap::new() } }   // what #[derive(Default)] produces
/// the Some results, in order
pub open spec fn collected(rs: Seq<Option<VariableEntry>>, n: nat) -> Seq<VariableEntry>
    decreases n
{
    if n == 0 || n > rs.len() { Seq::empty() } else { collected(rs, (n - 1) as nat) + (match rs[n - 1] { Some(e) => seq![e], None => Seq::empty() }) }
}
/// every parameter went through build_parameter, in order; ms are the local tables in between, rs the per-parameter results
pub open spec fn params_steps(op: Seq<Reference<ParameterDeclaration>>, np: Seq<Reference<ParameterDeclaration>>, gt: GlobalTable, ms: Seq<LocalTable>, rs: Seq<Option<VariableEntry>>) -> bool {
    np.len() == op.len() && ms.len() == op.len() + 1 && rs.len() == op.len()
    && forall|i: int| 0 <= i < op.len() ==> param_post(#[trigger] op[i], np[i], gt, ms[i], ms[i + 1], rs[i])
}
pub open spec fn vars_steps(ov: Seq<Reference<VariableDeclaration>>, nv: Seq<Reference<VariableDeclaration>>, gt: GlobalTable, ms: Seq<LocalTable>) -> bool {
    nv.len() == ov.len() && ms.len() == ov.len() + 1
    && forall|i: int| 0 <= i < ov.len() ==> var_post(#[trigger] ov[i], nv[i], gt, ms[i], ms[i + 1])
}
pub open spec fn wit_p(ms: Seq<LocalTable>, rs: Seq<Option<VariableEntry>>) -> bool { true }
pub open spec fn wit_v(ms: Seq<LocalTable>) -> bool { true }
pub open spec fn params_loop_post(op: Seq<Reference<ParameterDeclaration>>, np: Seq<Reference<ParameterDeclaration>>, gt: GlobalTable, ol: LocalTable, nl: LocalTable, out: Seq<VariableEntry>) -> bool {
    exists|ms: Seq<LocalTable>, rs: Seq<Option<VariableEntry>>| #[trigger] wit_p(ms, rs) && params_steps(op, np, gt, ms, rs)
        && ms[0] == ol && ms[op.len() as int] == nl && out == collected(rs, rs.len())
}
pub open spec fn vars_loop_post(ov: Seq<Reference<VariableDeclaration>>, nv: Seq<Reference<VariableDeclaration>>, gt: GlobalTable, ol: LocalTable, nl: LocalTable) -> bool {
    exists|ms: Seq<LocalTable>| #[trigger] wit_v(ms) && vars_steps(ov, nv, gt, ms) && ms[0] == ol && ms[ov.len() as int] == nl
}
//~assume (R6) `parameters.iter_mut().filter_map(|p| build_parameter(p, ..)).collect()` and `variable_declarations.iter_mut().for_each(|d| build_variable(d, ..))` apply the verified per-element functions to every element in order, threading the local table, and collect the Some results in order
#[verifier::external_body]
pub fn build_parameters_loop(params: &mut Vec<Reference<ParameterDeclaration>>, table: &GlobalTable, local_table: &mut LocalTable) -> (out: Vec<VariableEntry>)
    requires forall|i: int| 0 <= i < old(params)@.len() ==> pdecl_wf(#[trigger] old(params)@[i]),
    ensures params_loop_post(old(params)@, final(params)@, *table, *old(local_table), *final(local_table), out@),
{ unimplemented!() }
#[verifier::external_body]
pub fn build_variables_loop(vars: &mut Vec<Reference<VariableDeclaration>>, table: &GlobalTable, local_table: &mut LocalTable)
    requires forall|i: int| 0 <= i < old(vars)@.len() ==> vdecl_wf(#[trigger] old(vars)@[i]),
    ensures vars_loop_post(old(vars)@, final(vars)@, *table, *old(local_table), *final(local_table)),
{ unimplemented!() }
pub open spec fn wit_l(l0: LocalTable, lm: LocalTable, lf: LocalTable, ps: Seq<VariableEntry>) -> bool { true }
/// Procedure declaration rules: parameters and local variables are declared in order into a fresh local scope (rules above);
/// the procedure is entered into the global table with that scope and its parameter list, unless the name is already
/// declared, in which case it gets exactly one "redeclaration as procedure" on the name's own token and the table is unchanged.
pub open spec fn pdec_mid(o: ProcedureDeclaration, n: ProcedureDeclaration, ot: GlobalTable, nt: GlobalTable, offset: usize, l0: LocalTable, lm: LocalTable, lf: LocalTable, ps: Seq<VariableEntry>) -> bool {
    &&& lmap(l0) == Map::<Seq<char>, LocalEntry>::empty()
    &&& params_loop_post(o.parameters@, n.parameters@, ot, l0, lm, ps)
    &&& vars_loop_post(o.variable_declarations@, n.variable_declarations@, ot, lm, lf)
    &&& match (o.name, n.name) {
        (Some(a), Some(b)) => b.value == a.value && info_grew(a.info, b.info) && (
            if gmap(ot).contains_key(a.value@) { gmap(nt) == gmap(ot) && one_on_name(tail(a.info, b.info), a, 4) }
            else {
                &&& tail(a.info, b.info).len() == 0
                &&& gmap(nt).dom() == gmap(ot).dom().insert(a.value@)
                &&& forall|k: Seq<char>| gmap(ot).contains_key(k) ==> gmap(nt)[k] == gmap(ot)[k]
                &&& gmap(nt)[a.value@] matches GlobalEntry::Procedure(e) && e.name == a && e.parameters@ == ps && e.local_table == lf
                    && e.range == range_plus(o.info.range, offset as int)
            }),
        _ => false,
    }
}
pub open spec fn pdec_pre(d: ProcedureDeclaration, offset: usize) -> bool {
    opt_name_wf(d.name) && d.info.range.start + offset <= usize::MAX && d.info.range.end + offset <= usize::MAX
    && (d.name is Some ==> d.name->0.info.range.start <= d.name->0.info.range.end && d.name->0.info.range.end + d.info.range.start + offset <= usize::MAX)
    && (forall|i: int| 0 <= i < d.parameters@.len() ==> pdecl_wf(#[trigger] d.parameters@[i]))
    && (forall|i: int| 0 <= i < d.variable_declarations@.len() ==> vdecl_wf(#[trigger] d.variable_declarations@[i]))
}
pub open spec fn pdec_post(o: ProcedureDeclaration, n: ProcedureDeclaration, ot: GlobalTable, nt: GlobalTable, offset: usize) -> bool {
    &&& n.info == o.info && n.doc == o.doc && n.statements == o.statements
    &&& match o.name {
        None => n == o && gmap(nt) == gmap(ot),
        Some(_) => exists|l0: LocalTable, lm: LocalTable, lf: LocalTable, ps: Seq<VariableEntry>| #[trigger] wit_l(l0, lm, lf, ps) && pdec_mid(o, n, ot, nt, offset, l0, lm, lf, ps),
    }
}
//@extract spl_frontend/src/table/build.rs :: impl TableBuilder for ProcedureDeclaration
//@ rewrite build_parameters_loop build_variables_loop local_table_default eta_expand_variant_ctor ident_to_string
//@ open
    open spec fn pre(&self, t: GlobalTable, offset: usize) -> bool { pdec_pre(*self, offset) }
    open spec fn post(o: Self, n: Self, ot: GlobalTable, nt: GlobalTable, offset: usize) -> bool { pdec_post(o, n, ot, nt, offset) }
//@ after "if let Some(name) = self.name.as_mut() {"
            let ghost on = *name;
            proof {
                assert(on.info.errors@.subrange(0, on.info.errors@.len() as int) =~= on.info.errors@);
                assert(tail(on.info, on.info) =~= Seq::<SplError>::empty());
            }
//@ after "let mut local_table = local_table_default();"
            let ghost l0 = local_table;
//@ before "build_variables_loop("
let ghost lm = local_table;
            
//@ before "let entry = ProcedureEntry {"
let ghost lf = local_table;
            let ghost ps = parameters@;
            
//@ before "\n        }\n    }\n}"

            proof {
                assert(name.info.errors@.subrange(0, on.info.errors@.len() as int) =~= on.info.errors@);
                if name.info.errors@.len() == on.info.errors@.len() + 1 {
                    assert(tail(on.info, name.info) =~= seq![name.info.errors@[on.info.errors@.len() as int]]);
                }
                assert(wit_l(l0, lm, lf, ps));
            }
//@end

// ---------- global declarations and the program: main rules
pub open spec fn gdec_post(o: GlobalDeclaration, n: GlobalDeclaration, ot: GlobalTable, nt: GlobalTable, offset: usize) -> bool {
    match (o, n) {
        (GlobalDeclaration::Type(a), GlobalDeclaration::Type(b)) => tdec_post(a, b, ot, nt, offset),
        (GlobalDeclaration::Procedure(a), GlobalDeclaration::Procedure(b)) => pdec_post(a, b, ot, nt, offset),
        (GlobalDeclaration::Error(a), GlobalDeclaration::Error(b)) => a == b && gmap(nt) == gmap(ot),
        _ => false,
    }
}
pub open spec fn gdec_pre(g: GlobalDeclaration, offset: usize) -> bool {
    match g {
        GlobalDeclaration::Type(t) => tdec_pre(t, offset),
        GlobalDeclaration::Procedure(p) => pdec_pre(p, offset),
        GlobalDeclaration::Error(_) => true,
    }
}
//@extract spl_frontend/src/table/build.rs :: impl TableBuilder for GlobalDeclaration
//@ open
    open spec fn pre(&self, t: GlobalTable, offset: usize) -> bool { gdec_pre(*self, offset) }
    open spec fn post(o: Self, n: Self, ot: GlobalTable, nt: GlobalTable, offset: usize) -> bool { gdec_post(o, n, ot, nt, offset) }
//@end
pub open spec fn decls_steps(od: Seq<Reference<GlobalDeclaration>>, nd: Seq<Reference<GlobalDeclaration>>, ts: Seq<GlobalTable>, offset: usize) -> bool {
    nd.len() == od.len() && ts.len() == od.len() + 1
    && forall|i: int| 0 <= i < od.len() ==> (#[trigger] nd[i]).offset == od[i].offset && gdec_post(od[i].reference, nd[i].reference, ts[i], ts[i + 1], (offset + od[i].offset) as usize)
}
pub open spec fn wit_t(ts: Seq<GlobalTable>) -> bool { true }
pub open spec fn decls_loop_post(od: Seq<Reference<GlobalDeclaration>>, nd: Seq<Reference<GlobalDeclaration>>, ot: GlobalTable, nt: GlobalTable, offset: usize) -> bool {
    exists|ts: Seq<GlobalTable>| #[trigger] wit_t(ts) && decls_steps(od, nd, ts, offset) && ts[0] == ot && ts[od.len() as int] == nt
}
//~assume (R6) the declaration loop of Program::build builds every global declaration in order with `offset + dec.offset`, threading the global table (iter_mut().map().for_each())
#[verifier::external_body]
pub fn build_declarations_loop(decls: &mut Vec<Reference<GlobalDeclaration>>, table: &mut GlobalTable, offset: usize)
    requires forall|i: int| 0 <= i < old(decls)@.len() ==> offset + (#[trigger] old(decls)@[i]).offset <= usize::MAX && gdec_pre(old(decls)@[i].reference, (offset + old(decls)@[i].offset) as usize),
    ensures decls_loop_post(old(decls)@, final(decls)@, *old(table), *final(table), offset),
{ unimplemented!() }
/// no type is ever entered under the name `main` (TypeDeclaration::build refuses it), so `main`, if declared, is a procedure;
/// and the name of an entered procedure can be displaced by the start of its declaration
pub open spec fn no_type_main(t: GlobalTable) -> bool {
    gmap(t).contains_key(main_name()) ==> (gmap(t)[main_name()] matches GlobalEntry::Procedure(p)
        && p.name.info.range.start <= p.name.info.range.end && p.name.info.range.end + p.range.start <= usize::MAX)
}
pub proof fn lemma_main_is_a_procedure(od: Seq<Reference<GlobalDeclaration>>, nd: Seq<Reference<GlobalDeclaration>>, ts: Seq<GlobalTable>, offset: usize, k: int)
    requires decls_steps(od, nd, ts, offset), no_type_main(ts[0]), 0 <= k <= od.len(),
        forall|i: int| 0 <= i < od.len() ==> offset + (#[trigger] od[i]).offset <= usize::MAX && gdec_pre(od[i].reference, (offset + od[i].offset) as usize),
    ensures no_type_main(ts[k]), //# lemma_main_is_a_procedure
    decreases k
{
    if k > 0 {
        lemma_main_is_a_procedure(od, nd, ts, offset, k - 1);
        assert(gdec_post(od[k - 1].reference, nd[k - 1].reference, ts[k - 1], ts[k], (offset + od[k - 1].offset) as usize));
        assert(gdec_pre(od[k - 1].reference, (offset + od[k - 1].offset) as usize));
    }
}
pub open spec fn is_main_msg(m: ErrorMessage, missing: bool) -> bool {
    m matches ErrorMessage::BuildErrorMessage(bm) && (if missing { bm is MainIsMissing } else { bm is MainMustNotHaveParameters })
}
/// Main-procedure rules: a program without `main` gets exactly one "procedure main is missing" (at the very start); a `main`
/// with parameters gets exactly one "must not have any parameters" on the name of that declaration; otherwise nothing.
pub open spec fn main_rule_ok(t: GlobalTable, errs: Seq<SplError>) -> bool {
    if !gmap(t).contains_key(main_name()) { errs.len() == 1 && errs[0].0 == (0usize..0usize) && is_main_msg(errs[0].1, true) }
    else { match gmap(t)[main_name()] {
        GlobalEntry::Procedure(p) => if p.parameters@.len() > 0 {
                errs.len() == 1 && errs[0].0 == range_plus(p.name.info.range, p.range.start as int) && is_main_msg(errs[0].1, false)
            } else { errs.len() == 0 },
        GlobalEntry::Type(_) => false,
    } }
}
pub open spec fn prog_post(o: Program, n: Program, ot: GlobalTable, nt: GlobalTable, offset: usize) -> bool {
    decls_loop_post(o.global_declarations@, n.global_declarations@, ot, nt, offset) && info_grew(o.info, n.info) && main_rule_ok(nt, tail(o.info, n.info))
}
//@extract spl_frontend/src/table/build.rs :: impl TableBuilder for Program
//@ rewrite build_declarations_loop drop_lookup_as_ref
//@ open
    open spec fn pre(&self, t: GlobalTable, offset: usize) -> bool {
        no_type_main(t)
        && forall|i: int| 0 <= i < self.global_declarations@.len() ==> offset + (#[trigger] self.global_declarations@[i]).offset <= usize::MAX
            && gdec_pre(self.global_declarations@[i].reference, (offset + self.global_declarations@[i].offset) as usize)
    }
    open spec fn post(o: Self, n: Self, ot: GlobalTable, nt: GlobalTable, offset: usize) -> bool { prog_post(o, n, ot, nt, offset) }
//@ after "build_declarations_loop(&mut self.global_declarations, table, offset);"
        proof {
            let od = old(self).global_declarations@;
            let nd = self.global_declarations@;
            let ts = choose|ts: Seq<GlobalTable>| #[trigger] wit_t(ts) && decls_steps(od, nd, ts, offset) && ts[0] == *old(table) && ts[od.len() as int] == *table;
            lemma_main_is_a_procedure(od, nd, ts, offset, od.len() as int);
            reveal_strlit("main");
            assert("main"@ =~= main_name());
            let oi = old(self).info;
            assert(oi.errors@.subrange(0, oi.errors@.len() as int) =~= oi.errors@);
            assert(tail(oi, oi) =~= Seq::<SplError>::empty());
        }
//@ at_end fn build
proof {
            let oi = old(self).info;
            assert(self.info.errors@.subrange(0, oi.errors@.len() as int) =~= oi.errors@);
            if self.info.errors@.len() == oi.errors@.len() + 1 {
                assert(tail(oi, self.info) =~= seq![self.info.errors@[oi.errors@.len() as int]]);
            }
        }
    
//@end
}
fn main() {}
