// shared: the contract of `SymbolTable` (table.rs) — stated once; proved for both tables in unit `symtab`, used by every other unit
//@extract spl_frontend/src/error.rs :: struct KeyAlreadyExistsError
//@ rewrite drop_derive
//@end
//@extract spl_frontend/src/table.rs :: trait SymbolTable
//@ open
    spec fn content(&self) -> Map<Seq<char>, Self::Value>;
//@ ret r fn lookup
//@ sig fn lookup
        ensures (r is Some ==> self.content().contains_key(key@) && *r->0 == self.content()[key@]) && (r is None ==> !self.content().contains_key(key@)), //# SymbolTable::lookup::the_stored_entry_or_none
//@ ret r fn enter
//@ sig fn enter
        ensures
            r is Ok ==> !old(self).content().contains_key(key@) && final(self).content() == old(self).content().insert(key@, value), //# SymbolTable::enter::a_new_name_is_added_and_nothing_else_changes
            r is Err ==> old(self).content().contains_key(key@) && final(self).content() == old(self).content(), //# SymbolTable::enter::first_declaration_wins
//@end
