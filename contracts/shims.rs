// ---- R4 shims: std functions without a vstd specification, bodies are the std definitions for usize.
pub fn range_is_empty(r: &Range<usize>) -> (b: bool)
    ensures b == !(r.start < r.end),
{ !(r.start < r.end) }
pub fn range_contains(r: &Range<usize>, item: &usize) -> (b: bool)
    ensures b == (r.start <= *item && *item < r.end),
{ r.start <= *item && *item < r.end }
pub fn range_len(r: &Range<usize>) -> (n: usize)
    ensures n == (if r.start < r.end { r.end - r.start } else { 0 }),
{ if r.start < r.end { r.end - r.start } else { 0 } }
pub fn usize_max(a: usize, b: usize) -> (m: usize)
    ensures m == (if a >= b { a } else { b }),
{ if a >= b { a } else { b } }
pub fn usize_min(a: usize, b: usize) -> (m: usize)
    ensures m == (if a <= b { a } else { b }),
{ if a <= b { a } else { b } }
pub fn usize_from_u8(x: u8) -> (r: usize)
    ensures r == x as usize,
{ x as usize }
// usize <-> isize conversions: vstd has no TryFrom spec for the pointer-sized pair. The shims keep the std body;
// `expect` panics exactly when the conversion fails, which is stated as the precondition (trusted: std semantics).
#[verifier::external_body]
pub fn usize_to_isize_expect(x: usize, msg: &str) -> (r: isize)
    requires x <= isize::MAX,
    ensures r == x,
{ x.try_into().expect(msg) }
#[verifier::external_body]
pub fn isize_to_usize_expect(x: isize, msg: &str) -> (r: usize)
    requires x >= 0,
    ensures r == x,
{ x.try_into().expect(msg) }
pub fn range_eq(a: &Range<usize>, b: &Range<usize>) -> (r: bool)
    ensures r == (*a == *b),
{ a.start == b.start && a.end == b.end }
