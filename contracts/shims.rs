// ---- R4 shims: std functions without a vstd specification, bodies are the std definitions for usize.
pub fn range_is_empty(r: &Range<usize>) -> (b: bool)
    ensures b == !(r.start < r.end),
{ !(r.start < r.end) }
pub fn range_contains(r: &Range<usize>, item: &usize) -> (b: bool)
    ensures b == (r.start <= *item && *item < r.end),
{ r.start <= *item && *item < r.end }
pub fn range_len(r: &Range<usize>) -> (n: usize)
    ensures n == (if r.start < r.end { r.end - r.start } else { 0 }),
{ if r.start < r.end { r.end - r.start } else { 0 } }
pub fn usize_max(a: usize, b: usize) -> (m: usize)
    ensures m == (if a >= b { a } else { b }),
{ if a >= b { a } else { b } }
pub fn usize_min(a: usize, b: usize) -> (m: usize)
    ensures m == (if a <= b { a } else { b }),
{ if a <= b { a } else { b } }
pub fn usize_from_u8(x: u8) -> (r: usize)
    ensures r == x as usize,
{ x as usize }
