// unit `cursor` — C12, C13, C14 (and C16's entry point): how a request position becomes a document cursor —
// `doc_cursor` behind its `.await` (R6 `iflet`), and `DocumentCursor::ident`
use vstd::prelude::*;
use std::ops::Range;
use std::ops::Deref;
use std::collections::HashMap;
use std::fmt::Debug;
verus! {
//@include shims.rs
//@include types_error.rs
//@include types_tokens.rs
//@include types_ast.rs
//@include inc_positions.rs

//@include inc_cursor_types.rs

//~assume `xs.iter().find(p)` returns the first element of xs that satisfies p (std iterator semantics; R8)
pub open spec fn first_where<T>(xs: Seq<T>, p: spec_fn(T) -> bool, from: int) -> Option<T>
    decreases xs.len() - from
{
    if from < 0 || from >= xs.len() { None } else if p(xs[from]) { Some(xs[from]) } else { first_where(xs, p, from + 1) }
}
#[verifier::external_body]
pub fn iter_find<'a, T, F: Fn(&&'a T) -> bool>(xs: &'a Vec<T>, f: F, Ghost(p): Ghost<spec_fn(T) -> bool>) -> (r: Option<&'a T>)
    requires
        forall|i: int| 0 <= i < xs@.len() ==> call_requires(f, (&&#[trigger] xs@[i],)),
        forall|i: int, b: bool| 0 <= i < xs@.len() && #[trigger] call_ensures(f, (&&xs@[i],), b) ==> b == p(xs@[i]),
    ensures match first_where(xs@, p, 0) { Some(x) => r is Some && *r->0 == x, None => r is None },
{ xs.iter().find(f) }

//@extract lsp4spl/src/features.rs :: impl DocumentCursor :: fn ident
//@ rewrite iter_find name_clone
//@ ret r
//@ sig
        ensures same_ident(r, cursor_ident(*self)), //# DocumentCursor::ident::the_identifier_token_under_the_cursor
//@ closure |token| : &&Token
 -> (b: bool)
                ensures b == (token.range.start <= self.index < token.range.end)
//@ after_closure |token|
, Ghost(|t: Token| t.range.start <= self.index < t.range.end)
//@ before "let token = iter_find"
proof { lemma_first_where_is_ident_at(self.doc.tokens@, self.index, 0); }
        
//@end
#[verifier::external_body]
pub fn string_clone(s: &String) -> (r: String)
    ensures r@ == s@,
{ s.clone() }
pub proof fn lemma_first_where_is_ident_at(ts: Seq<Token>, index: usize, from: int)
    requires 0 <= from,
    ensures first_where(ts, |t: Token| t.range.start <= index < t.range.end, from) == ident_at(ts, index, from), //# lemma_first_where_is_ident_at
    decreases ts.len() - from
{
    if from < ts.len() { lemma_first_where_is_ident_at(ts, index, from + 1); }
}
// ---------- doc_cursor behind its `.await`
//@extract spl_frontend/src/ast.rs :: impl<T> Deref for Reference<T>
//@ ret r fn deref
//@ sig fn deref
        ensures *r == self.reference,
//@end
//@extract spl_frontend/src/ast.rs :: impl<T> AsRef<T> for Reference<T>
//@ ret r fn as_ref
//@ sig fn as_ref
        ensures *r == self.reference,
//@end
//@extract spl_frontend/src/ast.rs :: derive ToTextRange :: struct ProcedureDeclaration
//@ open
    open spec fn node_range(&self) -> Range<usize> { self.info.range }
//@end
//@extract spl_frontend/src/ast.rs :: derive ToTextRange :: struct TypeDeclaration
//@ open
    open spec fn node_range(&self) -> Range<usize> { self.info.range }
//@end
//@extract spl_frontend/src/ast.rs :: derive ToTextRange :: enum GlobalDeclaration
//@ open
    open spec fn node_range(&self) -> Range<usize> {
        match self { GlobalDeclaration::Type(t) => t.info.range, GlobalDeclaration::Procedure(p) => p.info.range, GlobalDeclaration::Error(i) => i.range }
    }
//@end
//~assume &tokens[offset..] is the suffix of the slice from `offset` (RangeFrom indexing; panics iff offset > len)
#[verifier::external_body]
pub fn slice_from<'a>(tokens: &'a [Token], offset: usize) -> (r: &'a [Token])
    requires offset <= tokens@.len(),
    ensures r@ == tokens@.subrange(offset as int, tokens@.len() as int),
{ &tokens[offset..] }
//~assume derived Clone of GlobalEntry is structural (R1)
#[verifier::external_body]
pub fn option_cloned(o: Option<&GlobalEntry>) -> (r: Option<GlobalEntry>)
    ensures match o { Some(v) => r == Some(*v), None => r is None },
{ unimplemented!() }

pub open spec fn decl_range(gd: GlobalDeclaration) -> Range<usize> {
    match gd { GlobalDeclaration::Type(t) => t.info.range, GlobalDeclaration::Procedure(p) => p.info.range, GlobalDeclaration::Error(i) => i.range }
}
pub open spec fn decl_name(gd: GlobalDeclaration) -> Option<Identifier> {
    match gd { GlobalDeclaration::Procedure(pd) => pd.name, GlobalDeclaration::Type(td) => td.name, GlobalDeclaration::Error(_) => None }
}
/// the text of the declaration (first to last token, relative to the Reference's offset) contains the byte index
pub open spec fn covers(gd: Reference<GlobalDeclaration>, ts: Seq<Token>, index: usize) -> bool {
    let r = text_range_of(ts.subrange(gd.offset as int, ts.len() as int), decl_range(gd.reference));
    r.start <= index < r.end
}
/// "the global declaration containing the cursor and its table entry as context"
pub open spec fn context_of(doc: AnalyzedSource, index: usize) -> Option<GlobalEntry> {
    match first_where(doc.ast.global_declarations@, |gd: Reference<GlobalDeclaration>| covers(gd, doc.tokens@, index), 0) {
        Some(gd) => match decl_name(gd.reference) {
            Some(name) => if gmap(doc.table).contains_key(name.value@) { Some(gmap(doc.table)[name.value@]) } else { None },
            None => None,
        },
        None => None,
    }
}
pub open spec fn decls_ok(doc: AnalyzedSource) -> bool {
    forall|i: int| 0 <= i < doc.ast.global_declarations@.len() ==> (#[trigger] doc.ast.global_declarations@[i]).offset <= doc.tokens@.len()
        && range_in(doc.tokens@.subrange(doc.ast.global_declarations@[i].offset as int, doc.tokens@.len() as int), decl_range(doc.ast.global_declarations@[i].reference))
}
//@extract lsp4spl/src/features.rs :: fn doc_cursor :: iflet doc
//@ rewrite drop_document_path iter_find doc_tokens_from range_contains and_then_inline lookup_cloned
//@ lift pub fn doc_cursor_at(doc: AnalyzedSource, pos: Position) -> (r: std::result::Result<Option<DocumentCursor>, Report>)
//@ sig
    requires text_fits(doc.text@), decls_ok(doc),
    ensures
        r is Ok && r->Ok_0 is Some && r->Ok_0->0.doc == doc, //# doc_cursor::a_cursor_on_the_requested_document
        r is Ok && r->Ok_0 is Some && r->Ok_0->0.index == idx_of(pos, doc.text@), //# doc_cursor::at_the_byte_offset_of_the_requested_position
        r is Ok && r->Ok_0 is Some && r->Ok_0->0.context == context_of(doc, idx_of(pos, doc.text@)), //# doc_cursor::in_the_context_of_the_first_declaration_whose_text_contains_it
//@ closure |gd| : &&Reference<GlobalDeclaration>
 -> (b: bool)
                requires gd.offset <= doc.tokens@.len() && range_in(doc.tokens@.subrange(gd.offset as int, doc.tokens@.len() as int), decl_range(gd.reference)),
                ensures b == covers(**gd, doc.tokens@, index)
//@ after_closure |gd|
, Ghost(|gd: Reference<GlobalDeclaration>| covers(gd, doc.tokens@, index))
//@end

// ---------- get_local_table: the local scope of a procedure declaration (used by semantic tokens and completion)
/// the local table of the procedure entry stored under the declaration's name, if there is one
pub open spec fn local_scope_of(pd: ProcedureDeclaration, table: GlobalTable) -> Option<LocalTable> {
    match pd.name {
        Some(name) => if gmap(table).contains_key(name.value@) { match gmap(table)[name.value@] { GlobalEntry::Procedure(p) => Some(p.local_table), GlobalEntry::Type(_) => None } } else { None },
        None => None,
    }
}
pub open spec fn same_table(r: Option<&LocalTable>, want: Option<LocalTable>) -> bool {
    match want { Some(t) => r is Some && *r->0 == t, None => r is None }
}
//@extract lsp4spl/src/features.rs :: fn get_local_table
//@ ret r
//@ sig
    ensures same_table(r, local_scope_of(*pd, *global_table)), //# get_local_table::the_scope_of_the_entry_under_the_declaration_s_name
//@end
//~assume every global declaration's Reference offset and token range lie inside the token vector (`decls_ok`; parser)
//~not_decided `get_doc` (the document broker behind the channel; async)

}
fn main() {}
