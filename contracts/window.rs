// unit `window` — C07 (truthful change window), auxiliary for C01; panic-freedom for C02
use vstd::prelude::*;
use std::ops::Range;
verus! {
//@include shims.rs
//@include types_error.rs
//@include types_tokens.rs

// ---------- spec vocabulary (written from the statement of C07 / the SPL lexical grammar, not from the code)

/// How many characters behind its end a token's identity can depend on under maximal munch:
/// 1 for lexemes that a following character can extend or re-classify
/// (identifiers and keywords, numbers, `0x..`, char literals, `:` `<` `>` `/`, and an unknown character such as a lone quote),
/// 0 for closed symbols and end of file.  A comment ends with its newline or, on the last line, with the text (premise below, the
/// nom lexer is out of reach): without the newline it grows with the next character, so the kind needs 1 as well (D13).
//~assume (premise, re-checked textually every run) `Comment::lex` ends a comment with the newline or the end of the text: `alt((tag("\n"), eof))`; the nom lexer itself is not verified
//@premise spl_frontend/src/lexer.rs :: impl Lexer for Comment :: fn lex contains "alt((tag(\"\\n\"), eof))"
pub open spec fn needed_la(t: TokenType) -> int {
    match t {
        TokenType::If | TokenType::Else | TokenType::While | TokenType::Array | TokenType::Of | TokenType::Proc
        | TokenType::Ref | TokenType::Type | TokenType::Var | TokenType::Ident(_) | TokenType::Int(_) | TokenType::Hex(_)
        | TokenType::Char(_) | TokenType::Colon | TokenType::Lt | TokenType::Gt | TokenType::Divide | TokenType::Comment(_) => 1,
        TokenType::Unknown(s) => if s@ == seq!['\''] { 1 } else { 0 },
        _ => 0,
    }
}
pub open spec fn ends_increase(ts: Seq<Token>) -> bool {
    forall|i: int, j: int| 0 <= i < j < ts.len() ==> ts[i].range.end < ts[j].range.end
}
//@include inc_window.rs

// ---------- code under contract

//@extract spl_frontend/src/tokens.rs :: impl TokenType :: fn look_ahead
//@ ret la
//@ sig
        ensures
            la >= needed_la(*self), //# look_ahead::covers_maximal_munch
            la <= 1, //# look_ahead::at_most_one
//@end

//@extract spl_frontend/src/tokens.rs :: impl Token :: fn is_affected_by
//@ ret b
//@ rewrite usize_from_u8
//@ sig
        requires self.range.end < usize::MAX,
        ensures
            !b ==> self.range.end + needed_la(self.token_type) <= index, //# is_affected_by::head_before_edit
//@end

//@extract spl_frontend/src/tokens.rs :: impl TokenChange :: fn new
//@ ret tc
//@ sig
        ensures
            tc.deletion_range == deletion_range && tc.insertion_len == insertion_len, //# TokenChange::new::fields
//@end








// ---------- lemmas over the contracts (statement of C07, consumer side used by the parser: auxiliary for C01)

/// "tokens before the window are the old ones untouched": with strictly increasing token ends, the tokens that
/// `is_affected_by` keeps form a prefix, so `unaffected_head.len()` is a window start.
pub proof fn head_is_prefix(ts: Seq<Token>, index: int, i: int, j: int)
    requires ends_increase(ts), 0 <= i < j < ts.len(), ts[j].range.end <= index,
    ensures ts[i].range.end + 1 <= index, //# head_is_prefix
{ }

// ---------- producer side: what `lexer::update` does after re-lexing (lifted, R6)
pub open spec fn starts_increase(ts: Seq<Token>) -> bool {
    forall|i: int, j: int| 0 <= i < j < ts.len() ==> ts[i].range.start < ts[j].range.start
}
/// `r` is what is left of `ts` after dropping its first k elements
pub open spec fn suffix_from(ts: Seq<Token>, k: int, r: Seq<Token>) -> bool { 0 <= k <= ts.len() && r =~= ts.subrange(k, ts.len() as int) }
//~assume `v.into_iter().skip_while(p).collect()` drops the longest prefix whose elements satisfy p and keeps the rest in order (std iterator semantics; R8)
#[verifier::external_body]
pub fn skip_while_collect<F: Fn(&Token) -> bool>(items: Vec<Token>, f: F, Ghost(g): Ghost<spec_fn(Token) -> bool>) -> (r: Vec<Token>)
    requires
        forall|i: int| 0 <= i < items@.len() ==> call_requires(f, (&#[trigger] items@[i],)),
        forall|i: int, out: bool| 0 <= i < items@.len() && #[trigger] call_ensures(f, (&items@[i],), out) ==> out == g(items@[i]),
    ensures
        suffix_from(items@, items@.len() - r@.len(), r@),
        forall|i: int| 0 <= i < items@.len() - r@.len() ==> g(#[trigger] items@[i]),
        r@.len() > 0 ==> !g(r@[0]),
{ items.into_iter().skip_while(f).collect() }
#[verifier::external_body]
pub fn concat4(a: Vec<Token>, b: Vec<Token>, c: Vec<Token>, d: Token) -> (r: Vec<Token>)
    ensures r@ == a@ + b@ + c@ + seq![d],
{ let mut r = a; r.extend(b); r.extend(c); r.push(d); r } // `[a, b, c, vec![d]].concat()` needs `Token: Clone`, and the derives are dropped in this unit (R3)

/// The reusable old tokens that are kept behind the re-lexed ones.  A fresh tokenisation never yields overlapping tokens and never leaves
/// text uncovered (C06), so the kept tail must start at or behind the end of the last re-lexed token, and no reusable token that starts
/// there may be dropped.
//@extract spl_frontend/src/lexer.rs :: fn update :: letexpr unaffected_tail
//@ rewrite skip_while_collect
//@ lift pub fn unaffected_tail(new_tokens: &Vec<Token>, reusable_tokens: Vec<Token>) -> (r: Vec<Token>)
//@ sig
    requires starts_increase(reusable_tokens@),
    ensures
        suffix_from(reusable_tokens@, reusable_tokens@.len() - r@.len(), r@), //# unaffected_tail::a_suffix_of_the_reusable_tokens
        new_tokens@.len() > 0 ==> forall|i: int| 0 <= i < reusable_tokens@.len() - r@.len() ==> (#[trigger] reusable_tokens@[i]).range.start < new_tokens@.last().range.end, //# unaffected_tail::only_overrun_tokens_dropped
        new_tokens@.len() == 0 ==> r@ =~= reusable_tokens@, //# unaffected_tail::nothing_relexed_nothing_dropped
        new_tokens@.len() > 0 ==> forall|i: int| 0 <= i < r@.len() ==> (#[trigger] r@[i]).range.start >= new_tokens@.last().range.end, //# unaffected_tail::no_overlap_with_the_last_relexed_token
//@ closure |token| : &Token
 -> (b: bool)
                ensures b == (token.range.start < last_new_token.range.end)
//@ after_closure |token|
, Ghost(|t: Token| t.range.start < last_new_token.range.end)
//@end

/// "a change window that is truthful", producer side: `olds` are the old tokens without the end-of-file token, those behind the edit
/// already shifted.  If the head is a prefix of them and the tail a suffix, the returned window is truthful for the returned stream.
//@extract spl_frontend/src/lexer.rs :: fn update :: tailfrom start
//@ rewrite array_concat4
//@ lift pub fn finish_update(unaffected_head: Vec<Token>, new_tokens: Vec<Token>, unaffected_tail: Vec<Token>, eof: Token, token_length: usize, Ghost(olds): Ghost<Seq<Token>>) -> (r: (Vec<Token>, TokenChange))
//@ sig
    requires
        olds.len() == token_length, unaffected_head@.len() + unaffected_tail@.len() <= token_length,
        unaffected_head@ =~= olds.subrange(0, unaffected_head@.len() as int),
        suffix_from(olds, token_length - unaffected_tail@.len(), unaffected_tail@),
    ensures
        r.0@ =~= unaffected_head@ + new_tokens@ + unaffected_tail@ + seq![eof], //# update::stream_is_head_relexed_tail_eof
        r.1.deletion_range.start == unaffected_head@.len() && r.1.deletion_range.end == token_length - unaffected_tail@.len(), //# update::window_is_what_lies_between_head_and_tail
        r.1.insertion_len == new_tokens@.len(), //# update::window_counts_the_relexed_tokens
        truthful(olds + seq![eof], r.0@, &r.1), //# update::window_truthful
//@end

// ---------- witnesses: every precondition above is satisfiable (vacuity guard)
pub proof fn witness_wf_change() {
    let tc = TokenChange { deletion_range: 2usize..5usize, insertion_len: 4 };
    assert(wf_change(&tc));
    assert(survives(&tc, 1) && !survives(&tc, 3) && new_pos(&tc, 6) == 7);
}
//~not_decided (here) the callers' side of `unaffected_tail` / `finish_update`: that `partition` yields a prefix and the reusable tokens are the shifted old ones in order is proved over the whole of `lexer::update` in unit `relex`; the re-lex loop and its stop condition (nom iterator, `Vec::contains`) stay outside
}
fn main() {}
