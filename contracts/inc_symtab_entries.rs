// shared: the entry types of the symbol table (table.rs), verbatim
//@extract spl_frontend/src/table.rs :: enum DataType
//@ rewrite drop_derive
//@end
//~assume derived Clone / PartialEq for DataType are structural (R1)
impl Clone for DataType {
    #[verifier::external_body]
    fn clone(&self) -> (r: Self)
        ensures r == *self,
    { unimplemented!() }
}
//@extract spl_frontend/src/table.rs :: struct TypeEntry
//@ rewrite drop_derive
//@end
//@extract spl_frontend/src/table.rs :: struct ProcedureEntry
//@ rewrite drop_derive
//@end
//@extract spl_frontend/src/table.rs :: struct VariableEntry
//@ rewrite drop_derive
//@end
//@extract spl_frontend/src/table.rs :: enum GlobalEntry
//@ rewrite drop_derive
//@end
//@extract spl_frontend/src/table.rs :: enum LocalEntry
//@ rewrite drop_derive
//@end
//@extract spl_frontend/src/table.rs :: enum Entry
//@ rewrite drop_derive
//@end
