// unit `goto` — C12: what the go-to handlers answer once the document cursor has been obtained (the part of each async handler
// behind `if let Some(cursor) = super::doc_cursor(..).await?`, lifted: R6 `iflet`)
use vstd::prelude::*;
use std::ops::Range;
use std::collections::HashMap;
use std::fmt::Debug;
verus! {
//@include shims.rs
//@include types_error.rs
//@include types_tokens.rs
//@include types_ast.rs
//@include inc_positions.rs

//@include inc_cursor.rs
/// the text range of the name of a global declaration: the name's token range is relative to that declaration's own tokens
pub open spec fn global_name(doc: AnalyzedSource, decl: Range<usize>, name: Identifier) -> Range<usize> {
    text_range_of(doc.tokens@.subrange(decl.start as int, decl.end as int), name.info.range)
}
/// the text range of the name of a parameter or local variable of procedure p: its declaration's range is relative to p, the name to that declaration
pub open spec fn local_name(doc: AnalyzedSource, p: Range<usize>, v: VariableEntry) -> Range<usize> {
    text_range_of(doc.tokens@.subrange(p.start as int, p.end as int).subrange(v.range.start as int, v.range.end as int), v.name.info.range)
}
/// "exactly the range of the name in the declaration that occurrence is bound to under SPL scoping": what an identifier seen inside procedure p resolves to
pub open spec fn bound_name(doc: AnalyzedSource, p: ProcedureEntry, e: Entry) -> Range<usize> {
    match e {
        Entry::Procedure(q) => global_name(doc, q.range, q.name),
        Entry::Type(t) => global_name(doc, t.range, t.name),
        Entry::Variable(v) => local_name(doc, p.range, *v),
        Entry::Parameter(v) => local_name(doc, p.range, *v),
    }
}
/// go-to-declaration / -definition
pub open spec fn declaration_target(doc: AnalyzedSource, context: Option<GlobalEntry>, ident: Option<Ident>) -> Option<Range<usize>> {
    match (ident, context) {
        (Some(id), Some(GlobalEntry::Type(_))) =>
            if id.value@ == "int"@ { None } else if gmap(doc.table).contains_key(id.value@) {
                Some(match gmap(doc.table)[id.value@] { GlobalEntry::Type(t) => global_name(doc, t.range, t.name), GlobalEntry::Procedure(q) => global_name(doc, q.range, q.name) })
            } else { None },
        (Some(id), Some(GlobalEntry::Procedure(p))) => match lookup_spec(scope_of(&doc, &p), id.value@) {
            Some(e) => if (match e { Entry::Type(t) => predefined(t.name.value@), Entry::Procedure(q) => predefined(q.name.value@), _ => false }) { None } else { Some(bound_name(doc, p, e)) },
            None => None,
        },
        _ => None,
    }
}
/// every range stored in the symbol table names tokens that exist (established by the table builder from the parser's ranges; assumed)
pub open spec fn decl_ok(ts: Seq<Token>, decl: Range<usize>, name: Identifier) -> bool {
    decl.start <= decl.end <= ts.len() && range_in(ts.subrange(decl.start as int, decl.end as int), name.info.range)
}
pub open spec fn local_ok(ts: Seq<Token>, p: Range<usize>, v: VariableEntry) -> bool {
    p.start <= p.end <= ts.len() && v.range.start <= v.range.end <= p.end - p.start
    && range_in(ts.subrange(p.start as int, p.end as int).subrange(v.range.start as int, v.range.end as int), v.name.info.range)
}
pub open spec fn global_entry_ok(ts: Seq<Token>, e: GlobalEntry) -> bool {
    match e { GlobalEntry::Type(t) => predefined(t.name.value@) || decl_ok(ts, t.range, t.name), GlobalEntry::Procedure(q) => predefined(q.name.value@) || decl_ok(ts, q.range, q.name) }
}
/// entries are stored under their own name, and `int` is the only predefined type (table/initialization.rs)
pub open spec fn stored_under_its_name(k: Seq<char>, e: GlobalEntry) -> bool {
    match e { GlobalEntry::Type(t) => t.name.value@ == k && (predefined(k) ==> k == "int"@), GlobalEntry::Procedure(q) => q.name.value@ == k }
}
pub open spec fn table_ok(doc: AnalyzedSource) -> bool {
    forall|k: Seq<char>| gmap(doc.table).contains_key(k) ==> global_entry_ok(doc.tokens@, #[trigger] gmap(doc.table)[k]) && stored_under_its_name(k, gmap(doc.table)[k])
}
pub open spec fn locals_ok(doc: AnalyzedSource, p: ProcedureEntry) -> bool {
    forall|k: Seq<char>| lmap(p.local_table).contains_key(k) ==> match #[trigger] lmap(p.local_table)[k] { LocalEntry::Variable(v) => local_ok(doc.tokens@, p.range, v), LocalEntry::Parameter(v) => local_ok(doc.tokens@, p.range, v) }
}
/// the answer carries the requested document's uri and the LSP range of the target
pub open spec fn answers(r: std::result::Result<Option<Location>, Report>, uri: Url, want: Option<Range<usize>>, text: Seq<char>) -> bool {
    r is Ok && match want {
        Some(tr) => r->Ok_0 == Some(Location { uri, range: PosRange { start: pos_of(tr.start, text), end: pos_of(tr.end, text) } }),
        None => r->Ok_0 is None,
    }
}

pub open spec fn predefined_global(e: GlobalEntry) -> bool { match e { GlobalEntry::Type(t) => predefined(t.name.value@), GlobalEntry::Procedure(q) => predefined(q.name.value@) } }
/// the enclosing declaration's own entry is a declared one, and (valid program) inside a type declaration an identifier names `int` or a declared entity
pub open spec fn context_ok(cursor: DocumentCursor) -> bool {
    match cursor.context {
        Some(GlobalEntry::Type(t)) => decl_ok(cursor.doc.tokens@, t.range, t.name) && match cursor_ident(cursor) {
            Some(id) => id.value@ == "int"@ || !gmap(cursor.doc.table).contains_key(id.value@) || !predefined_global(gmap(cursor.doc.table)[id.value@]), None => true },
        Some(GlobalEntry::Procedure(p)) => decl_ok(cursor.doc.tokens@, p.range, p.name) && locals_ok(cursor.doc, p),
        None => true,
    }
}
/// go-to-type-definition: the type declaration named by a type identifier, or the declaration registered as creator of a variable's array type
pub open spec fn type_definition_target(doc: AnalyzedSource, context: Option<GlobalEntry>, ident: Option<Ident>) -> Option<Range<usize>> {
    match (ident, context) {
        (Some(id), Some(GlobalEntry::Type(_))) =>
            if id.value@ == "int"@ || !gmap(doc.table).contains_key(id.value@) { None } else { match gmap(doc.table)[id.value@] { GlobalEntry::Type(t) => Some(global_name(doc, t.range, t.name)), GlobalEntry::Procedure(_) => None } },
        (Some(id), Some(GlobalEntry::Procedure(p))) => match lookup_spec(scope_of(&doc, &p), id.value@) {
            Some(Entry::Type(t)) => if id.value@ == "int"@ { None } else { Some(global_name(doc, t.range, t.name)) },
            Some(Entry::Procedure(_)) => None,
            Some(Entry::Variable(v)) => created_by(doc, *v),
            Some(Entry::Parameter(v)) => created_by(doc, *v),
            None => None,
        },
        _ => None,
    }
}
/// "the declaration that created its array type": the type declaration registered under the creator's name **whose type this is**; an anonymous array type
/// is created by the variable's own declaration (its creator is the variable's name), which is no type declaration — also when a type of that name exists
pub open spec fn created_by(doc: AnalyzedSource, v: VariableEntry) -> Option<Range<usize>> {
    match v.data_type {
        Some(DataType::Array { size, base_type, creator }) => if gmap(doc.table).contains_key(creator@) { match gmap(doc.table)[creator@] { GlobalEntry::Type(t) => if predefined(t.name.value@) || t.data_type != v.data_type { None } else { Some(global_name(doc, t.range, t.name)) }, GlobalEntry::Procedure(_) => None } } else { None },
        _ => None,
    }
}
/// go-to-implementation: like go-to-declaration, for procedures only
pub open spec fn implementation_target(doc: AnalyzedSource, context: Option<GlobalEntry>, ident: Option<Ident>) -> Option<Range<usize>> {
    match (ident, context) {
        (Some(id), Some(GlobalEntry::Procedure(p))) => match lookup_spec(scope_of(&doc, &p), id.value@) {
            Some(Entry::Procedure(q)) => if predefined(q.name.value@) { None } else { Some(global_name(doc, q.range, q.name)) },
            _ => None,
        },
        _ => None,
    }
}

//@extract lsp4spl/src/features/goto.rs :: fn declaration :: iflet cursor
//@ rewrite tokens_slice2 tokens_slice ident_eq_int
//@ lift pub fn declaration_at(cursor: DocumentCursor, uri: Url) -> (r: std::result::Result<Option<Location>, Report>)
//@ sig
    requires text_fits(cursor.doc.text@), table_ok(cursor.doc), context_ok(cursor),
    ensures
        answers(r, uri, declaration_target(cursor.doc, cursor.context, cursor_ident(cursor)), cursor.doc.text@), //# declaration::the_name_in_the_declaration_the_occurrence_is_bound_to
//@end
//~assume derived PartialEq of DataType is structural (R1)
#[verifier::external_body]
pub fn opt_datatype_eq(a: &Option<DataType>, b: &Option<DataType>) -> (r: bool)
    ensures r == (*a == *b),
{ unimplemented!() }
//@extract lsp4spl/src/features/goto.rs :: fn type_definition :: iflet cursor
//@ rewrite tokens_slice2 tokens_slice ident_eq_int opt_datatype_ne
//@ lift pub fn type_definition_at(cursor: DocumentCursor, uri: Url) -> (r: std::result::Result<Option<Location>, Report>)
//@ sig
    requires text_fits(cursor.doc.text@), table_ok(cursor.doc), context_ok(cursor),
    ensures
        answers(r, uri, type_definition_target(cursor.doc, cursor.context, cursor_ident(cursor)), cursor.doc.text@), //# type_definition::the_named_type_or_the_creator_of_the_array_type
//@end
//@extract lsp4spl/src/features/goto.rs :: fn implementation :: iflet cursor
//@ rewrite tokens_slice2 tokens_slice ident_eq_int
//@ lift pub fn implementation_at(cursor: DocumentCursor, uri: Url) -> (r: std::result::Result<Option<Location>, Report>)
//@ sig
    requires text_fits(cursor.doc.text@), table_ok(cursor.doc), context_ok(cursor),
    ensures
        answers(r, uri, implementation_target(cursor.doc, cursor.context, cursor_ident(cursor)), cursor.doc.text@), //# implementation::the_name_of_the_called_procedure_s_declaration
//@end
//~assume the symbol table's ranges name existing tokens (`table_ok`, `context_ok`: established by the table builder from the parser's ranges); the context entry is the entry of the declaration that contains the cursor (`doc_cursor`, async, not under contract); valid program: inside a type declaration an identifier names `int` or a declared entity
//~not_decided that `definition` forwards to `declaration` (one-line async fn); `doc_cursor` and `DocumentCursor::ident` are under contract in unit `cursor` (used here by contract)

}
fn main() {}
