// shared: the symbol table of table.rs — entry types verbatim, the two HashMap tables as opaque types with an abstract map view,
// scoping (local before global), `first declaration wins`
// ---------- symbol table types (table.rs), verbatim; the two HashMap-based tables are opaque to the verifier
//@include inc_symtab_entries.rs
//@extract spl_frontend/src/table.rs :: struct GlobalTable
//@ rewrite drop_derive
//@ attr
#[verifier::external_body]
//@end
//@extract spl_frontend/src/table.rs :: struct LocalTable
//@ rewrite drop_derive
//@ attr
#[verifier::external_body]
//@end
//@extract spl_frontend/src/table.rs :: struct LookupTable
//@ rewrite drop_derive
//@end
/// abstract content of the tables
pub uninterp spec fn gmap(t: GlobalTable) -> Map<Seq<char>, GlobalEntry>;
pub uninterp spec fn lmap(t: LocalTable) -> Map<Seq<char>, LocalEntry>;
/// SPL scoping: the local scope is searched before the global one
pub open spec fn lookup_spec<'a>(t: LookupTable<'a>, key: Seq<char>) -> Option<Entry<'a>> {
    if t.local_table is Some && lmap(*t.local_table->0).contains_key(key) {
        Some(match lmap(*t.local_table->0)[key] { LocalEntry::Variable(v) => Entry::Variable(&v), LocalEntry::Parameter(p) => Entry::Parameter(&p) })
    } else if t.global_table is Some && gmap(*t.global_table->0).contains_key(key) {
        Some(match gmap(*t.global_table->0)[key] { GlobalEntry::Type(x) => Entry::Type(&x), GlobalEntry::Procedure(p) => Entry::Procedure(&p) })
    } else { None }
}
// LookupTable::lookup runs verbatim (its Option adapters inlined as their std definitions, R9/R14) on top of the map contracts of the two tables
//@extract spl_frontend/src/table.rs :: impl<'a> LookupTable<'a> :: fn lookup
//@ rewrite map_or_else_some map_entry_from map_inline and_then_inline
//@ ret r
//@ sig
        ensures r == lookup_spec(*self, key@), //# LookupTable::lookup::local_scope_before_global_scope
//@end

// ---------- the tables as abstract maps: "first declaration wins"
//@include inc_symtab_trait.rs
//~assume in this unit the two tables are opaque (R15) and their `lookup` / `enter` are used through the contract of inc_symtab_trait.rs; that contract is proved for both impls, bodies verbatim, in unit `symtab` (part of every check that uses this include)
//@extract spl_frontend/src/table.rs :: impl SymbolTable for GlobalTable
//@ open
    open spec fn content(&self) -> Map<Seq<char>, GlobalEntry> { gmap(*self) }
//@ assume_body fn lookup
//@ assume_body fn enter
//@end
//@extract spl_frontend/src/table.rs :: impl SymbolTable for LocalTable
//@ open
    open spec fn content(&self) -> Map<Seq<char>, LocalEntry> { lmap(*self) }
//@ assume_body fn lookup
//@ assume_body fn enter
//@end
//@extract spl_frontend/src/table.rs :: impl<'a> From<&'a GlobalEntry> for Entry<'a>
//@end
//@extract spl_frontend/src/table.rs :: impl<'a> From<&'a LocalEntry> for Entry<'a>
//@end
impl<'a> vstd::std_specs::convert::FromSpecImpl<&'a GlobalEntry> for Entry<'a> {
    open spec fn obeys_from_spec() -> bool { true }
    open spec fn from_spec(v: &'a GlobalEntry) -> Entry<'a> { match v { GlobalEntry::Type(t) => Entry::Type(t), GlobalEntry::Procedure(p) => Entry::Procedure(p) } }
}
impl<'a> vstd::std_specs::convert::FromSpecImpl<&'a LocalEntry> for Entry<'a> {
    open spec fn obeys_from_spec() -> bool { true }
    open spec fn from_spec(v: &'a LocalEntry) -> Entry<'a> { match v { LocalEntry::Variable(x) => Entry::Variable(x), LocalEntry::Parameter(x) => Entry::Parameter(x) } }
}
