// unit `symtab` — the two HashMap-based symbol tables of table.rs really are the abstract maps every other unit takes them for:
// `SymbolTable::{lookup, enter}` of GlobalTable and LocalTable, bodies verbatim, against the contract stated once in inc_symtab_trait.rs
// ("a new name is added and nothing else changes", "first declaration wins", "lookup returns the stored entry or None").
// Here the tables are NOT opaque: `entries: HashMap<String, _>` with vstd's HashMap / hash_map::Entry specifications.
use vstd::prelude::*;
use vstd::std_specs::hash::*;
use std::ops::Range;
use std::fmt::Debug;
use std::collections::{hash_map, HashMap};
verus! {
// ---------- String keys seen as their character sequences.  Four stated assumptions about std (in vstd's own style: it has the
// same axioms for primitive keys and `Box<Q>` borrows, none for `String`/`str`); everything else in this module is proved.
pub mod strmap {
use super::*;
//~assume `String` as a HashMap key: Hash and Eq of String are deterministic and agree (vstd `obeys_key_model`), `RandomState` builds valid hashers
pub broadcast axiom fn axiom_string_key_model()
    ensures #[trigger] obeys_key_model::<String>(), builds_valid_hashers::<std::hash::RandomState>();
//~assume two `String`s with the same characters are the same value (spec equality of String is equality of content)
pub broadcast axiom fn axiom_string_view_injective(a: String, b: String)
    requires #[trigger] a@ == #[trigger] b@,
    ensures a == b;
//~assume `Borrow<str> for String`: looking a HashMap<String, V> up with a `&str` finds the key with the same characters
pub broadcast axiom fn axiom_str_borrowed_key<V>(m: Map<String, V>, k: &str)
    ensures #[trigger] contains_borrowed_key(m, k) <==> exists|s: String| s@ == k@ && m.contains_key(s);
pub broadcast axiom fn axiom_str_borrowed_value<V>(m: Map<String, V>, k: &str, v: V)
    ensures #[trigger] maps_borrowed_key_to_value(m, k, v) <==> exists|s: String| s@ == k@ && m.contains_key(s) && m[s] == v;

pub open spec fn skey(s: Seq<char>) -> String { choose|k: String| k@ == s }
/// the map over character sequences that a map over Strings denotes
pub open spec fn smap<V>(m: Map<String, V>) -> Map<Seq<char>, V> {
    Map::new(m.dom().map(|k: String| k@), |s: Seq<char>| m[skey(s)])
}
pub broadcast proof fn lemma_skey(k: String)
    ensures #[trigger] skey(k@) == k
{
    broadcast use axiom_string_view_injective;
    assert(skey(k@)@ == k@);
}
pub broadcast proof fn lemma_smap_dom<V>(m: Map<String, V>, s: Seq<char>)
    ensures #[trigger] smap(m).contains_key(s) <==> (skey(s)@ == s && m.contains_key(skey(s)))
{
    broadcast use lemma_skey;
    broadcast use axiom_string_view_injective;
    let f = |k: String| k@;
    m.dom().lemma_map_contains(f, s);
    if m.dom().map(f).contains(s) {
        let x = choose|x: String| m.dom().contains(x) && f(x) == s;
        assert(skey(s) == x);
    }
    if skey(s)@ == s && m.contains_key(skey(s)) {
        assert(m.dom().contains(skey(s)) && f(skey(s)) == s);
    }
}
pub broadcast proof fn lemma_smap_insert<V>(m: Map<String, V>, k: String, v: V)
    ensures #[trigger] smap(m.insert(k, v)) == smap(m).insert(k@, v)
{
    broadcast use lemma_skey;
    broadcast use lemma_smap_dom;
    assert forall|s: Seq<char>| smap(m.insert(k, v)).contains_key(s) <==> smap(m).insert(k@, v).contains_key(s) by {
        if s == k@ { assert(skey(s) == k); }
    }
    assert(smap(m.insert(k, v)) =~= smap(m).insert(k@, v));
}
pub broadcast proof fn lemma_smap_key<V>(m: Map<String, V>, k: String)
    ensures #[trigger] smap(m).contains_key(k@) == m.contains_key(k), m.contains_key(k) ==> smap(m)[k@] == m[k]
{
    broadcast use lemma_skey;
    broadcast use lemma_smap_dom;
    assert(skey(k@) == k);
}
pub broadcast group symtab_model { axiom_string_key_model, axiom_str_borrowed_key, axiom_str_borrowed_value, lemma_skey, lemma_smap_dom, lemma_smap_insert, lemma_smap_key }
}
use strmap::*;
broadcast use symtab_model;

//@include shims.rs
//@include types_error.rs
//@include types_ast.rs
//@include inc_symtab_entries.rs
//@extract spl_frontend/src/table.rs :: struct GlobalTable
//@ rewrite drop_derive
//@end
//@extract spl_frontend/src/table.rs :: struct LocalTable
//@ rewrite drop_derive
//@end
//@include inc_symtab_trait.rs
//@extract spl_frontend/src/error.rs :: impl<T: Debug> KeyAlreadyExistsError<T> :: fn new
//@end
//@extract spl_frontend/src/table.rs :: impl SymbolTable for GlobalTable
//@ open
    open spec fn content(&self) -> Map<Seq<char>, GlobalEntry> { smap(self.entries@) }
//@end
//@extract spl_frontend/src/table.rs :: impl SymbolTable for LocalTable
//@ open
    open spec fn content(&self) -> Map<Seq<char>, LocalEntry> { smap(self.entries@) }
//@end
} // verus!
fn main() {}
