// shared: displacement vocabulary, the Shiftable trait with its contract, impls for Range<usize>, SplError, Vec<SplError>
// ---------- spec vocabulary
pub open spec fn range_plus(r: Range<usize>, d: int) -> Range<usize> {
    ((r.start + d) as usize)..((r.end + d) as usize)
}
pub open spec fn range_fits(r: Range<usize>, d: int) -> bool {
    0 <= r.start + d <= usize::MAX && 0 <= r.end + d <= usize::MAX
}
/// signed displacement as computed by lexer::update: everything passes through isize
pub open spec fn range_fits_i(r: Range<usize>, d: int) -> bool {
    r.start <= isize::MAX && r.end <= isize::MAX && 0 <= r.start + d <= isize::MAX && 0 <= r.end + d <= isize::MAX
}
pub open spec fn errs_fit_i(es: Seq<SplError>, d: int) -> bool {
    forall|i: int| 0 <= i < es.len() ==> range_fits_i((#[trigger] es[i]).0, d)
}
/// an error moved by d: same message, range displaced
pub open spec fn err_plus(e: SplError, d: int) -> SplError {
    SplError(range_plus(e.0, d), e.1)
}
pub open spec fn errs_plus(es: Seq<SplError>, d: int) -> Seq<SplError> {
    Seq::new(es.len(), |i: int| err_plus(es[i], d))
}
pub open spec fn errs_fit(es: Seq<SplError>, d: int) -> bool {
    forall|i: int| 0 <= i < es.len() ==> range_fits((#[trigger] es[i]).0, d)
}
// ---------- the Shiftable trait with its contract
//@extract spl_frontend/src/lib.rs :: trait Shiftable
//@ after "pub trait Shiftable"
: Sized
//@ open
    /// precondition: the displaced value is representable
    spec fn shift_ok(self, offset: usize) -> bool;
    /// postcondition: r is self displaced by offset
    spec fn shifted(self, offset: usize, r: Self) -> bool;
//@ ret r fn shift
//@ sig fn shift
        requires self.shift_ok(offset),
        ensures self.shifted(offset, r), //# Shiftable::shift::displaced
//@end

//@extract spl_frontend/src/lib.rs :: impl Shiftable for Range<usize>
//@ open
    open spec fn shift_ok(self, offset: usize) -> bool { range_fits(self, offset as int) }
    open spec fn shifted(self, offset: usize, r: Self) -> bool { r == range_plus(self, offset as int) }
//@end

//@extract spl_frontend/src/error.rs :: impl Shiftable for SplError
//@ open
    open spec fn shift_ok(self, offset: usize) -> bool { range_fits(self.0, offset as int) }
    open spec fn shifted(self, offset: usize, r: Self) -> bool { r == err_plus(self, offset as int) }
//@end

//~assume `v.into_iter().map(f).collect()` applies f to every element in order (std iterator semantics; R6); `impl Shiftable for Vec<SplError>` is verified on top of it (and bounded-checked by Kani unit vecshift)
#[verifier::external_body]
pub fn errs_map_collect<F: Fn(SplError) -> SplError>(v: Vec<SplError>, f: F) -> (r: Vec<SplError>)
    requires forall|i: int| 0 <= i < v@.len() ==> call_requires(f, (#[trigger] v@[i],)),
    ensures r@.len() == v@.len(), forall|i: int| 0 <= i < v@.len() ==> call_ensures(f, (v@[i],), #[trigger] r@[i]),
{ v.into_iter().map(f).collect() }
//@extract spl_frontend/src/error.rs :: impl Shiftable for Vec<SplError>
//@ rewrite errs_map_collect
//@ open
    open spec fn shift_ok(self, offset: usize) -> bool { errs_fit(self@, offset as int) }
    open spec fn shifted(self, offset: usize, r: Self) -> bool { r@ == errs_plus(self@, offset as int) }
//@ closure |err| : SplError
 -> (out: SplError)
            requires range_fits(err.0, offset as int),
            ensures out == err_plus(err, offset as int)
//@ before "errs_map_collect(self"
let r_ = 
//@ at_end fn shift
; proof { assert(r_@ =~= errs_plus(self@, offset as int)); } r_
//@end
