// shared: displacement vocabulary, the Shiftable trait with its contract, impls for Range<usize>, SplError, Vec<SplError>
// ---------- spec vocabulary
pub open spec fn range_plus(r: Range<usize>, d: int) -> Range<usize> {
    ((r.start + d) as usize)..((r.end + d) as usize)
}
pub open spec fn range_fits(r: Range<usize>, d: int) -> bool {
    0 <= r.start + d <= usize::MAX && 0 <= r.end + d <= usize::MAX
}
/// signed displacement as computed by lexer::update: everything passes through isize
pub open spec fn range_fits_i(r: Range<usize>, d: int) -> bool {
    r.start <= isize::MAX && r.end <= isize::MAX && 0 <= r.start + d <= isize::MAX && 0 <= r.end + d <= isize::MAX
}
pub open spec fn errs_fit_i(es: Seq<SplError>, d: int) -> bool {
    forall|i: int| 0 <= i < es.len() ==> range_fits_i((#[trigger] es[i]).0, d)
}
/// an error moved by d: same message, range displaced
pub open spec fn err_plus(e: SplError, d: int) -> SplError {
    SplError(range_plus(e.0, d), e.1)
}
pub open spec fn errs_plus(es: Seq<SplError>, d: int) -> Seq<SplError> {
    Seq::new(es.len(), |i: int| err_plus(es[i], d))
}
pub open spec fn errs_fit(es: Seq<SplError>, d: int) -> bool {
    forall|i: int| 0 <= i < es.len() ==> range_fits((#[trigger] es[i]).0, d)
}
// ---------- the Shiftable trait with its contract
//@extract spl_frontend/src/lib.rs :: trait Shiftable
//@ after "pub trait Shiftable"
: Sized
//@ open
    /// precondition: the displaced value is representable
    spec fn shift_ok(self, offset: usize) -> bool;
    /// postcondition: r is self displaced by offset
    spec fn shifted(self, offset: usize, r: Self) -> bool;
//@ ret r fn shift
//@ sig fn shift
        requires self.shift_ok(offset),
        ensures self.shifted(offset, r), //# Shiftable::shift::displaced
//@end

//@extract spl_frontend/src/lib.rs :: impl Shiftable for Range<usize>
//@ open
    open spec fn shift_ok(self, offset: usize) -> bool { range_fits(self, offset as int) }
    open spec fn shifted(self, offset: usize, r: Self) -> bool { r == range_plus(self, offset as int) }
//@end

//@extract spl_frontend/src/error.rs :: impl Shiftable for SplError
//@ open
    open spec fn shift_ok(self, offset: usize) -> bool { range_fits(self.0, offset as int) }
    open spec fn shifted(self, offset: usize, r: Self) -> bool { r == err_plus(self, offset as int) }
//@end

//~assume `impl Shiftable for Vec<SplError>` (error.rs: into_iter().map(shift).collect()) moves every element and keeps order: iterator adapters are outside Verus; bounded-checked by Kani unit vecshift
//@extract spl_frontend/src/error.rs :: impl Shiftable for Vec<SplError>
//@ open
    open spec fn shift_ok(self, offset: usize) -> bool { errs_fit(self@, offset as int) }
    open spec fn shifted(self, offset: usize, r: Self) -> bool { r@ == errs_plus(self@, offset as int) }
//@ attr fn shift
    #[verifier::external_body]
//@end

