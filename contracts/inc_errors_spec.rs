// shared: the meaning of the tree's stored errors (se_*), the data invariant (ok_*), and the ErrorContainer trait contract
// ---------- the meaning of the tree (ast.rs: "every node range is relative to the nearest enclosing Reference"):
// the errors in a node's own info, followed by those of its children in source order; a child reached through a
// Reference is displaced by that reference's offset, a child reached through a plain Box is not.
pub open spec fn opt_id(o: Option<Identifier>) -> Seq<SplError> {
    match o { Some(n) => n.info.errors@, None => Seq::empty() }
}
pub open spec fn se_var(v: Variable) -> Seq<SplError>
    decreases v
{
    match v {
        Variable::NamedVariable(n) => n.info.errors@,
        Variable::ArrayAccess(a) => a.info.errors@ + se_var(*a.array) + (match a.index {
            Some(ix) => errs_plus(se_expr(ix.reference), ix.offset as int),
            None => Seq::empty(),
        }),
    }
}
pub open spec fn se_expr(e: Expression) -> Seq<SplError>
    decreases e
{
    match e {
        Expression::Binary(b) => b.info.errors@ + se_expr(*b.lhs) + se_expr(*b.rhs),
        Expression::Bracketed(b) => b.info.errors@ + se_expr(*b.expr),
        Expression::IntLiteral(i) => i.info.errors@,
        Expression::Unary(u) => u.info.errors@ + se_expr(*u.expr),
        Expression::Variable(v) => se_var(v),
        Expression::Error(i) => i.errors@,
    }
}
pub open spec fn se_texpr(t: TypeExpression) -> Seq<SplError>
    decreases t
{
    match t {
        TypeExpression::NamedType(n) => n.info.errors@,
        TypeExpression::ArrayType { size, base_type, info } => info.errors@
            + (match size { Some(l) => l.info.errors@, None => Seq::empty() })
            + (match base_type { Some(bt) => errs_plus(se_texpr(bt.reference), bt.offset as int), None => Seq::empty() }),
    }
}
pub open spec fn opt_texpr(o: Option<Reference<TypeExpression>>) -> Seq<SplError> {
    match o { Some(t) => errs_plus(se_texpr(t.reference), t.offset as int), None => Seq::empty() }
}
pub open spec fn se_tdec(t: TypeDeclaration) -> Seq<SplError> {
    t.info.errors@ + opt_id(t.name) + opt_texpr(t.type_expr)
}
pub open spec fn se_vdec(v: VariableDeclaration) -> Seq<SplError> {
    match v {
        VariableDeclaration::Error(i) => i.errors@,
        VariableDeclaration::Valid { doc, name, type_expr, info } => info.errors@ + opt_id(name) + opt_texpr(type_expr),
    }
}
pub open spec fn se_pdec(p: ParameterDeclaration) -> Seq<SplError> {
    match p {
        ParameterDeclaration::Error(i) => i.errors@,
        ParameterDeclaration::Valid { doc, is_ref, name, type_expr, info } => info.errors@ + opt_id(name) + opt_texpr(type_expr),
    }
}
pub open spec fn opt_expr(o: Option<Reference<Expression>>) -> Seq<SplError> {
    match o { Some(e) => errs_plus(se_expr(e.reference), e.offset as int), None => Seq::empty() }
}
pub open spec fn se_args(v: Vec<Reference<Expression>>, n: nat) -> Seq<SplError>
    decreases n
{
    if n == 0 || n > v@.len() { Seq::empty() } else { se_args(v, (n - 1) as nat) + errs_plus(se_expr(v@[n - 1].reference), v@[n - 1].offset as int) }
}
pub open spec fn se_call(c: CallStatement) -> Seq<SplError> {
    c.info.errors@ + c.name.info.errors@ + se_args(c.arguments, c.arguments@.len())
}
pub open spec fn se_asg(a: Assignment) -> Seq<SplError> {
    a.info.errors@ + se_var(a.variable) + opt_expr(a.expr)
}
pub open spec fn se_stmt(s: Statement) -> Seq<SplError>
    decreases s, 0nat
{
    match s {
        Statement::Empty(i) => i.errors@,
        Statement::Error(i) => i.errors@,
        Statement::Assignment(a) => se_asg(a),
        Statement::Call(c) => se_call(c),
        Statement::If(i) => i.info.errors@ + opt_expr(i.condition)
            + (match i.if_branch { Some(b) => errs_plus(se_stmt(b.reference), b.offset as int), None => Seq::empty() })
            + (match i.else_branch { Some(b) => errs_plus(se_stmt(b.reference), b.offset as int), None => Seq::empty() }),
        Statement::While(w) => w.info.errors@ + opt_expr(w.condition)
            + (match w.statement { Some(b) => errs_plus(se_stmt(b.reference), b.offset as int), None => Seq::empty() }),
        Statement::Block(b) => b.info.errors@ + se_stmts(b.statements, b.statements@.len()),
    }
}
pub open spec fn se_stmts(v: Vec<Reference<Statement>>, n: nat) -> Seq<SplError>
    decreases v, n
{
    if n == 0 || n > v@.len() { Seq::empty() } else { se_stmts(v, (n - 1) as nat) + errs_plus(se_stmt(v@[n - 1].reference), v@[n - 1].offset as int) }
}
pub open spec fn se_pdecs(v: Vec<Reference<ParameterDeclaration>>, n: nat) -> Seq<SplError>
    decreases n
{
    if n == 0 || n > v@.len() { Seq::empty() } else { se_pdecs(v, (n - 1) as nat) + errs_plus(se_pdec(v@[n - 1].reference), v@[n - 1].offset as int) }
}
pub open spec fn se_vdecs(v: Vec<Reference<VariableDeclaration>>, n: nat) -> Seq<SplError>
    decreases n
{
    if n == 0 || n > v@.len() { Seq::empty() } else { se_vdecs(v, (n - 1) as nat) + errs_plus(se_vdec(v@[n - 1].reference), v@[n - 1].offset as int) }
}
pub open spec fn se_proc(p: ProcedureDeclaration) -> Seq<SplError> {
    p.info.errors@ + opt_id(p.name) + se_pdecs(p.parameters, p.parameters@.len())
        + se_vdecs(p.variable_declarations, p.variable_declarations@.len()) + se_stmts(p.statements, p.statements@.len())
}
pub open spec fn se_gdec(g: GlobalDeclaration) -> Seq<SplError> {
    match g {
        GlobalDeclaration::Type(t) => se_tdec(t),
        GlobalDeclaration::Procedure(p) => se_proc(p),
        GlobalDeclaration::Error(i) => i.errors@,
    }
}
pub open spec fn se_gdecs(v: Vec<Reference<GlobalDeclaration>>, n: nat) -> Seq<SplError>
    decreases n
{
    if n == 0 || n > v@.len() { Seq::empty() } else { se_gdecs(v, (n - 1) as nat) + errs_plus(se_gdec(v@[n - 1].reference), v@[n - 1].offset as int) }
}
pub open spec fn se_prog(p: Program) -> Seq<SplError> {
    p.info.errors@ + se_gdecs(p.global_declarations, p.global_declarations@.len())
}

// ---------- data invariant needed for panic-freedom: every displacement is representable (positions are token indices)
// and the size literal of an array type carries no error of its own (IntLiteral::parse contains no `expect`).
pub open spec fn ok_var(v: Variable) -> bool
    decreases v
{
    match v {
        Variable::NamedVariable(n) => true,
        Variable::ArrayAccess(a) => ok_var(*a.array) && (match a.index {
            Some(ix) => ok_expr(ix.reference) && errs_fit(se_expr(ix.reference), ix.offset as int),
            None => true,
        }),
    }
}
pub open spec fn ok_expr(e: Expression) -> bool
    decreases e
{
    match e {
        Expression::Binary(b) => ok_expr(*b.lhs) && ok_expr(*b.rhs),
        Expression::Bracketed(b) => ok_expr(*b.expr),
        Expression::IntLiteral(i) => true,
        Expression::Unary(u) => ok_expr(*u.expr),
        Expression::Variable(v) => ok_var(v),
        Expression::Error(i) => true,
    }
}
pub open spec fn ok_texpr(t: TypeExpression) -> bool
    decreases t
{
    match t {
        TypeExpression::NamedType(n) => true,
        TypeExpression::ArrayType { size, base_type, info } =>
            (match size { Some(l) => l.info.errors@.len() == 0, None => true })
            && (match base_type { Some(bt) => ok_texpr(bt.reference) && errs_fit(se_texpr(bt.reference), bt.offset as int), None => true }),
    }
}
pub open spec fn ok_opt_texpr(o: Option<Reference<TypeExpression>>) -> bool {
    match o { Some(t) => ok_texpr(t.reference) && errs_fit(se_texpr(t.reference), t.offset as int), None => true }
}
pub open spec fn ok_opt_expr(o: Option<Reference<Expression>>) -> bool {
    match o { Some(e) => ok_expr(e.reference) && errs_fit(se_expr(e.reference), e.offset as int), None => true }
}
pub open spec fn ok_vdec(v: VariableDeclaration) -> bool {
    match v {
        VariableDeclaration::Error(i) => true,
        VariableDeclaration::Valid { doc, name, type_expr, info } => ok_opt_texpr(type_expr),
    }
}
pub open spec fn ok_pdec(p: ParameterDeclaration) -> bool {
    match p {
        ParameterDeclaration::Error(i) => true,
        ParameterDeclaration::Valid { doc, is_ref, name, type_expr, info } => ok_opt_texpr(type_expr),
    }
}
pub open spec fn ok_call(c: CallStatement) -> bool {
    forall|i: int| 0 <= i < c.arguments@.len() ==> ok_expr((#[trigger] c.arguments@[i]).reference) && errs_fit(se_expr(c.arguments@[i].reference), c.arguments@[i].offset as int)
}
pub open spec fn ok_asg(a: Assignment) -> bool {
    ok_var(a.variable) && ok_opt_expr(a.expr)
}
pub open spec fn ok_stmt(s: Statement) -> bool
    decreases s, 0nat
{
    match s {
        Statement::Empty(i) => true,
        Statement::Error(i) => true,
        Statement::Assignment(a) => ok_asg(a),
        Statement::Call(c) => ok_call(c),
        Statement::If(i) => ok_opt_expr(i.condition)
            && (match i.if_branch { Some(b) => ok_stmt(b.reference) && errs_fit(se_stmt(b.reference), b.offset as int), None => true })
            && (match i.else_branch { Some(b) => ok_stmt(b.reference) && errs_fit(se_stmt(b.reference), b.offset as int), None => true }),
        Statement::While(w) => ok_opt_expr(w.condition)
            && (match w.statement { Some(b) => ok_stmt(b.reference) && errs_fit(se_stmt(b.reference), b.offset as int), None => true }),
        Statement::Block(b) => ok_stmts(b.statements, b.statements@.len()),
    }
}
pub open spec fn ok_stmts(v: Vec<Reference<Statement>>, n: nat) -> bool
    decreases v, n
{
    if n == 0 || n > v@.len() { true } else { ok_stmts(v, (n - 1) as nat) && ok_stmt(v@[n - 1].reference) && errs_fit(se_stmt(v@[n - 1].reference), v@[n - 1].offset as int) }
}
pub open spec fn ok_proc(p: ProcedureDeclaration) -> bool {
    (forall|i: int| 0 <= i < p.parameters@.len() ==> ok_pdec((#[trigger] p.parameters@[i]).reference) && errs_fit(se_pdec(p.parameters@[i].reference), p.parameters@[i].offset as int))
    && (forall|i: int| 0 <= i < p.variable_declarations@.len() ==> ok_vdec((#[trigger] p.variable_declarations@[i]).reference) && errs_fit(se_vdec(p.variable_declarations@[i].reference), p.variable_declarations@[i].offset as int))
    && ok_stmts(p.statements, p.statements@.len())
}
pub open spec fn ok_gdec(g: GlobalDeclaration) -> bool {
    match g {
        GlobalDeclaration::Type(t) => ok_opt_texpr(t.type_expr),
        GlobalDeclaration::Procedure(p) => ok_proc(p),
        GlobalDeclaration::Error(i) => true,
    }
}
pub open spec fn ok_prog(p: Program) -> bool {
    forall|i: int| 0 <= i < p.global_declarations@.len() ==> ok_gdec((#[trigger] p.global_declarations@[i]).reference) && errs_fit(se_gdec(p.global_declarations@[i].reference), p.global_declarations@[i].offset as int)
}

// ---------- the trait with its contract
//@extract spl_frontend/src/lib.rs :: trait ErrorContainer
//@ open
    /// data invariant under which errors() cannot overflow
    spec fn errors_ok(&self) -> bool;
    /// the meaning of the tree
    spec fn spec_errors(&self) -> Seq<SplError>;
//@ ret r fn errors
//@ sig fn errors
        requires self.errors_ok(),
        ensures r@ == self.spec_errors(), //# ErrorContainer::errors::exactly_the_stored_errors
//@end

