// unit `errors` — C03(b): ErrorContainer::errors() returns every error stored in the tree exactly once, in order,
// displaced by exactly the Reference offsets above it.  Trees of unbounded depth and width.
use vstd::prelude::*;
use std::ops::Range;
use std::ops::Deref;
verus! {
//@include shims.rs
//@include types_error.rs
//@include types_tokens.rs
//@include types_ast.rs
//@include inc_shiftable.rs
//@include inc_reference.rs

// ---------- the meaning of the tree (ast.rs: "every node range is relative to the nearest enclosing Reference"):
// the errors in a node's own info, followed by those of its children in source order; a child reached through a
// Reference is displaced by that reference's offset, a child reached through a plain Box is not.
pub open spec fn opt_id(o: Option<Identifier>) -> Seq<SplError> {
    match o { Some(n) => n.info.errors@, None => Seq::empty() }
}
pub open spec fn se_var(v: Variable) -> Seq<SplError>
    decreases v
{
    match v {
        Variable::NamedVariable(n) => n.info.errors@,
        Variable::ArrayAccess(a) => a.info.errors@ + se_var(*a.array) + (match a.index {
            Some(ix) => errs_plus(se_expr(ix.reference), ix.offset as int),
            None => Seq::empty(),
        }),
    }
}
pub open spec fn se_expr(e: Expression) -> Seq<SplError>
    decreases e
{
    match e {
        Expression::Binary(b) => b.info.errors@ + se_expr(*b.lhs) + se_expr(*b.rhs),
        Expression::Bracketed(b) => b.info.errors@ + se_expr(*b.expr),
        Expression::IntLiteral(i) => i.info.errors@,
        Expression::Unary(u) => u.info.errors@ + se_expr(*u.expr),
        Expression::Variable(v) => se_var(v),
        Expression::Error(i) => i.errors@,
    }
}
pub open spec fn se_texpr(t: TypeExpression) -> Seq<SplError>
    decreases t
{
    match t {
        TypeExpression::NamedType(n) => n.info.errors@,
        TypeExpression::ArrayType { size, base_type, info } => info.errors@
            + (match size { Some(l) => l.info.errors@, None => Seq::empty() })
            + (match base_type { Some(bt) => errs_plus(se_texpr(bt.reference), bt.offset as int), None => Seq::empty() }),
    }
}
pub open spec fn opt_texpr(o: Option<Reference<TypeExpression>>) -> Seq<SplError> {
    match o { Some(t) => errs_plus(se_texpr(t.reference), t.offset as int), None => Seq::empty() }
}
pub open spec fn se_tdec(t: TypeDeclaration) -> Seq<SplError> {
    t.info.errors@ + opt_id(t.name) + opt_texpr(t.type_expr)
}
pub open spec fn se_vdec(v: VariableDeclaration) -> Seq<SplError> {
    match v {
        VariableDeclaration::Error(i) => i.errors@,
        VariableDeclaration::Valid { doc, name, type_expr, info } => info.errors@ + opt_id(name) + opt_texpr(type_expr),
    }
}
pub open spec fn se_pdec(p: ParameterDeclaration) -> Seq<SplError> {
    match p {
        ParameterDeclaration::Error(i) => i.errors@,
        ParameterDeclaration::Valid { doc, is_ref, name, type_expr, info } => info.errors@ + opt_id(name) + opt_texpr(type_expr),
    }
}
pub open spec fn opt_expr(o: Option<Reference<Expression>>) -> Seq<SplError> {
    match o { Some(e) => errs_plus(se_expr(e.reference), e.offset as int), None => Seq::empty() }
}
pub open spec fn se_args(v: Vec<Reference<Expression>>, n: nat) -> Seq<SplError>
    decreases n
{
    if n == 0 || n > v@.len() { Seq::empty() } else { se_args(v, (n - 1) as nat) + errs_plus(se_expr(v@[n - 1].reference), v@[n - 1].offset as int) }
}
pub open spec fn se_call(c: CallStatement) -> Seq<SplError> {
    c.info.errors@ + c.name.info.errors@ + se_args(c.arguments, c.arguments@.len())
}
pub open spec fn se_asg(a: Assignment) -> Seq<SplError> {
    a.info.errors@ + se_var(a.variable) + opt_expr(a.expr)
}
pub open spec fn se_stmt(s: Statement) -> Seq<SplError>
    decreases s, 0nat
{
    match s {
        Statement::Empty(i) => i.errors@,
        Statement::Error(i) => i.errors@,
        Statement::Assignment(a) => se_asg(a),
        Statement::Call(c) => se_call(c),
        Statement::If(i) => i.info.errors@ + opt_expr(i.condition)
            + (match i.if_branch { Some(b) => errs_plus(se_stmt(b.reference), b.offset as int), None => Seq::empty() })
            + (match i.else_branch { Some(b) => errs_plus(se_stmt(b.reference), b.offset as int), None => Seq::empty() }),
        Statement::While(w) => w.info.errors@ + opt_expr(w.condition)
            + (match w.statement { Some(b) => errs_plus(se_stmt(b.reference), b.offset as int), None => Seq::empty() }),
        Statement::Block(b) => b.info.errors@ + se_stmts(b.statements, b.statements@.len()),
    }
}
pub open spec fn se_stmts(v: Vec<Reference<Statement>>, n: nat) -> Seq<SplError>
    decreases v, n
{
    if n == 0 || n > v@.len() { Seq::empty() } else { se_stmts(v, (n - 1) as nat) + errs_plus(se_stmt(v@[n - 1].reference), v@[n - 1].offset as int) }
}
pub open spec fn se_pdecs(v: Vec<Reference<ParameterDeclaration>>, n: nat) -> Seq<SplError>
    decreases n
{
    if n == 0 || n > v@.len() { Seq::empty() } else { se_pdecs(v, (n - 1) as nat) + errs_plus(se_pdec(v@[n - 1].reference), v@[n - 1].offset as int) }
}
pub open spec fn se_vdecs(v: Vec<Reference<VariableDeclaration>>, n: nat) -> Seq<SplError>
    decreases n
{
    if n == 0 || n > v@.len() { Seq::empty() } else { se_vdecs(v, (n - 1) as nat) + errs_plus(se_vdec(v@[n - 1].reference), v@[n - 1].offset as int) }
}
pub open spec fn se_proc(p: ProcedureDeclaration) -> Seq<SplError> {
    p.info.errors@ + opt_id(p.name) + se_pdecs(p.parameters, p.parameters@.len())
        + se_vdecs(p.variable_declarations, p.variable_declarations@.len()) + se_stmts(p.statements, p.statements@.len())
}
pub open spec fn se_gdec(g: GlobalDeclaration) -> Seq<SplError> {
    match g {
        GlobalDeclaration::Type(t) => se_tdec(t),
        GlobalDeclaration::Procedure(p) => se_proc(p),
        GlobalDeclaration::Error(i) => i.errors@,
    }
}
pub open spec fn se_gdecs(v: Vec<Reference<GlobalDeclaration>>, n: nat) -> Seq<SplError>
    decreases n
{
    if n == 0 || n > v@.len() { Seq::empty() } else { se_gdecs(v, (n - 1) as nat) + errs_plus(se_gdec(v@[n - 1].reference), v@[n - 1].offset as int) }
}
pub open spec fn se_prog(p: Program) -> Seq<SplError> {
    p.info.errors@ + se_gdecs(p.global_declarations, p.global_declarations@.len())
}

// ---------- data invariant needed for panic-freedom: every displacement is representable (positions are token indices)
// and the size literal of an array type carries no error of its own (IntLiteral::parse contains no `expect`).
pub open spec fn ok_var(v: Variable) -> bool
    decreases v
{
    match v {
        Variable::NamedVariable(n) => true,
        Variable::ArrayAccess(a) => ok_var(*a.array) && (match a.index {
            Some(ix) => ok_expr(ix.reference) && errs_fit(se_expr(ix.reference), ix.offset as int),
            None => true,
        }),
    }
}
pub open spec fn ok_expr(e: Expression) -> bool
    decreases e
{
    match e {
        Expression::Binary(b) => ok_expr(*b.lhs) && ok_expr(*b.rhs),
        Expression::Bracketed(b) => ok_expr(*b.expr),
        Expression::IntLiteral(i) => true,
        Expression::Unary(u) => ok_expr(*u.expr),
        Expression::Variable(v) => ok_var(v),
        Expression::Error(i) => true,
    }
}
pub open spec fn ok_texpr(t: TypeExpression) -> bool
    decreases t
{
    match t {
        TypeExpression::NamedType(n) => true,
        TypeExpression::ArrayType { size, base_type, info } =>
            (match size { Some(l) => l.info.errors@.len() == 0, None => true })
            && (match base_type { Some(bt) => ok_texpr(bt.reference) && errs_fit(se_texpr(bt.reference), bt.offset as int), None => true }),
    }
}
pub open spec fn ok_opt_texpr(o: Option<Reference<TypeExpression>>) -> bool {
    match o { Some(t) => ok_texpr(t.reference) && errs_fit(se_texpr(t.reference), t.offset as int), None => true }
}
pub open spec fn ok_opt_expr(o: Option<Reference<Expression>>) -> bool {
    match o { Some(e) => ok_expr(e.reference) && errs_fit(se_expr(e.reference), e.offset as int), None => true }
}
pub open spec fn ok_vdec(v: VariableDeclaration) -> bool {
    match v {
        VariableDeclaration::Error(i) => true,
        VariableDeclaration::Valid { doc, name, type_expr, info } => ok_opt_texpr(type_expr),
    }
}
pub open spec fn ok_pdec(p: ParameterDeclaration) -> bool {
    match p {
        ParameterDeclaration::Error(i) => true,
        ParameterDeclaration::Valid { doc, is_ref, name, type_expr, info } => ok_opt_texpr(type_expr),
    }
}
pub open spec fn ok_call(c: CallStatement) -> bool {
    forall|i: int| 0 <= i < c.arguments@.len() ==> ok_expr((#[trigger] c.arguments@[i]).reference) && errs_fit(se_expr(c.arguments@[i].reference), c.arguments@[i].offset as int)
}
pub open spec fn ok_asg(a: Assignment) -> bool {
    ok_var(a.variable) && ok_opt_expr(a.expr)
}
pub open spec fn ok_stmt(s: Statement) -> bool
    decreases s, 0nat
{
    match s {
        Statement::Empty(i) => true,
        Statement::Error(i) => true,
        Statement::Assignment(a) => ok_asg(a),
        Statement::Call(c) => ok_call(c),
        Statement::If(i) => ok_opt_expr(i.condition)
            && (match i.if_branch { Some(b) => ok_stmt(b.reference) && errs_fit(se_stmt(b.reference), b.offset as int), None => true })
            && (match i.else_branch { Some(b) => ok_stmt(b.reference) && errs_fit(se_stmt(b.reference), b.offset as int), None => true }),
        Statement::While(w) => ok_opt_expr(w.condition)
            && (match w.statement { Some(b) => ok_stmt(b.reference) && errs_fit(se_stmt(b.reference), b.offset as int), None => true }),
        Statement::Block(b) => ok_stmts(b.statements, b.statements@.len()),
    }
}
pub open spec fn ok_stmts(v: Vec<Reference<Statement>>, n: nat) -> bool
    decreases v, n
{
    if n == 0 || n > v@.len() { true } else { ok_stmts(v, (n - 1) as nat) && ok_stmt(v@[n - 1].reference) && errs_fit(se_stmt(v@[n - 1].reference), v@[n - 1].offset as int) }
}
pub open spec fn ok_proc(p: ProcedureDeclaration) -> bool {
    (forall|i: int| 0 <= i < p.parameters@.len() ==> ok_pdec((#[trigger] p.parameters@[i]).reference) && errs_fit(se_pdec(p.parameters@[i].reference), p.parameters@[i].offset as int))
    && (forall|i: int| 0 <= i < p.variable_declarations@.len() ==> ok_vdec((#[trigger] p.variable_declarations@[i]).reference) && errs_fit(se_vdec(p.variable_declarations@[i].reference), p.variable_declarations@[i].offset as int))
    && ok_stmts(p.statements, p.statements@.len())
}
pub open spec fn ok_gdec(g: GlobalDeclaration) -> bool {
    match g {
        GlobalDeclaration::Type(t) => ok_opt_texpr(t.type_expr),
        GlobalDeclaration::Procedure(p) => ok_proc(p),
        GlobalDeclaration::Error(i) => true,
    }
}
pub open spec fn ok_prog(p: Program) -> bool {
    forall|i: int| 0 <= i < p.global_declarations@.len() ==> ok_gdec((#[trigger] p.global_declarations@[i]).reference) && errs_fit(se_gdec(p.global_declarations@[i].reference), p.global_declarations@[i].offset as int)
}

// ---------- std behaviour assumed
//~assume derived Clone for SplError is structural (R1: derives are dropped; `clone` returns an equal value)
impl Clone for SplError {
    #[verifier::external_body]
    fn clone(&self) -> (r: Self)
        ensures r == *self,
    { unimplemented!() }
}
#[verifier::external_body]
pub fn vec_extend(a: &mut Vec<SplError>, b: Vec<SplError>)
    ensures final(a)@ == old(a)@ + b@,
{ a.extend(b) }

/// concatenation of the per-element results of a flat_map, in order
pub open spec fn flat(rs: Seq<Vec<SplError>>, n: nat) -> Seq<SplError>
    decreases n
{
    if n == 0 || n > rs.len() { Seq::empty() } else { flat(rs, (n - 1) as nat) + rs[n - 1]@ }
}
//~assume `errors.extend(xs.iter().flat_map(f))` applies f to every element of xs in order and appends the concatenation of the results (std iterator semantics; R6)
#[verifier::external_body]
pub fn extend_flat_map<T, F: Fn(&T) -> Vec<SplError>>(errors: &mut Vec<SplError>, items: &Vec<T>, f: F) -> (rs: Ghost<Seq<Vec<SplError>>>)
    requires forall|i: int| 0 <= i < items@.len() ==> call_requires(f, (&#[trigger] items@[i],)),
    ensures
        rs@.len() == items@.len(),
        forall|i: int| 0 <= i < items@.len() ==> call_ensures(f, (&items@[i],), #[trigger] rs@[i]),
        final(errors)@ == old(errors)@ + flat(rs@, rs@.len()),
{ errors.extend(items.iter().flat_map(f)); Ghost::assume_new() }

// ---------- the trait with its contract
//@extract spl_frontend/src/lib.rs :: trait ErrorContainer
//@ open
    /// data invariant under which errors() cannot overflow
    spec fn errors_ok(&self) -> bool;
    /// the meaning of the tree
    spec fn spec_errors(&self) -> Seq<SplError>;
//@ ret r fn errors
//@ sig fn errors
        requires self.errors_ok(),
        ensures r@ == self.spec_errors(), //# ErrorContainer::errors::exactly_the_stored_errors
//@end

// ---------- lemmas connecting flat() with the recursive meaning
pub proof fn lemma_flat_args(v: Vec<Reference<Expression>>, rs: Seq<Vec<SplError>>, n: nat)
    requires rs.len() == v@.len(), n <= v@.len(),
        forall|i: int| 0 <= i < v@.len() ==> (#[trigger] rs[i])@ == errs_plus(se_expr(v@[i].reference), v@[i].offset as int),
    ensures flat(rs, n) == se_args(v, n), //# lemma_flat_args
    decreases n
{ if n > 0 { lemma_flat_args(v, rs, (n - 1) as nat); } }
pub proof fn lemma_flat_stmts(v: Vec<Reference<Statement>>, rs: Seq<Vec<SplError>>, n: nat)
    requires rs.len() == v@.len(), n <= v@.len(),
        forall|i: int| 0 <= i < v@.len() ==> (#[trigger] rs[i])@ == errs_plus(se_stmt(v@[i].reference), v@[i].offset as int),
    ensures flat(rs, n) == se_stmts(v, n), //# lemma_flat_stmts
    decreases n
{ if n > 0 { lemma_flat_stmts(v, rs, (n - 1) as nat); } }
pub proof fn lemma_flat_pdecs(v: Vec<Reference<ParameterDeclaration>>, rs: Seq<Vec<SplError>>, n: nat)
    requires rs.len() == v@.len(), n <= v@.len(),
        forall|i: int| 0 <= i < v@.len() ==> (#[trigger] rs[i])@ == errs_plus(se_pdec(v@[i].reference), v@[i].offset as int),
    ensures flat(rs, n) == se_pdecs(v, n), //# lemma_flat_pdecs
    decreases n
{ if n > 0 { lemma_flat_pdecs(v, rs, (n - 1) as nat); } }
pub proof fn lemma_flat_vdecs(v: Vec<Reference<VariableDeclaration>>, rs: Seq<Vec<SplError>>, n: nat)
    requires rs.len() == v@.len(), n <= v@.len(),
        forall|i: int| 0 <= i < v@.len() ==> (#[trigger] rs[i])@ == errs_plus(se_vdec(v@[i].reference), v@[i].offset as int),
    ensures flat(rs, n) == se_vdecs(v, n), //# lemma_flat_vdecs
    decreases n
{ if n > 0 { lemma_flat_vdecs(v, rs, (n - 1) as nat); } }
pub proof fn lemma_flat_gdecs(v: Vec<Reference<GlobalDeclaration>>, rs: Seq<Vec<SplError>>, n: nat)
    requires rs.len() == v@.len(), n <= v@.len(),
        forall|i: int| 0 <= i < v@.len() ==> (#[trigger] rs[i])@ == errs_plus(se_gdec(v@[i].reference), v@[i].offset as int),
    ensures flat(rs, n) == se_gdecs(v, n), //# lemma_flat_gdecs
    decreases n
{ if n > 0 { lemma_flat_gdecs(v, rs, (n - 1) as nat); } }
pub proof fn lemma_ok_stmts(v: Vec<Reference<Statement>>, n: nat, i: int)
    requires ok_stmts(v, n), n <= v@.len(), 0 <= i < n,
    ensures ok_stmt(v@[i].reference) && errs_fit(se_stmt(v@[i].reference), v@[i].offset as int), //# lemma_ok_stmts
    decreases n
{ if i < n - 1 { lemma_ok_stmts(v, (n - 1) as nat, i); } }

// ---------- the impls, verbatim
//@extract spl_frontend/src/ast/error_container.rs :: impl ErrorContainer for AstInfo
//@ open
    open spec fn errors_ok(&self) -> bool { true }
    open spec fn spec_errors(&self) -> Seq<SplError> { self.errors@ }
//@ after "self.errors.clone()"
;
        assert(r@ =~= self.errors@);
        r
//@ before "self.errors.clone()"
let r =
//@end
//@extract spl_frontend/src/ast/error_container.rs :: impl ErrorContainer for IntLiteral
//@ open
    open spec fn errors_ok(&self) -> bool { true }
    open spec fn spec_errors(&self) -> Seq<SplError> { self.info.errors@ }
//@end
//@extract spl_frontend/src/ast/error_container.rs :: impl ErrorContainer for Identifier
//@ open
    open spec fn errors_ok(&self) -> bool { true }
    open spec fn spec_errors(&self) -> Seq<SplError> { self.info.errors@ }
//@end
//@extract spl_frontend/src/ast/error_container.rs :: impl ErrorContainer for ArrayAccess
//@ rewrite vec_extend
//@ open
    open spec fn errors_ok(&self) -> bool { ok_var(Variable::ArrayAccess(*self)) }
    open spec fn spec_errors(&self) -> Seq<SplError> { se_var(Variable::ArrayAccess(*self)) }
//@ attr fn errors
    #[verifier::exec_allows_no_decreases_clause]
//@end
//@extract spl_frontend/src/ast/error_container.rs :: impl ErrorContainer for Variable
//@ open
    open spec fn errors_ok(&self) -> bool { ok_var(*self) }
    open spec fn spec_errors(&self) -> Seq<SplError> { se_var(*self) }
//@ attr fn errors
    #[verifier::exec_allows_no_decreases_clause]
//@end
//@extract spl_frontend/src/ast/error_container.rs :: impl ErrorContainer for BinaryExpression
//@ rewrite vec_extend
//@ open
    open spec fn errors_ok(&self) -> bool { ok_expr(Expression::Binary(*self)) }
    open spec fn spec_errors(&self) -> Seq<SplError> { se_expr(Expression::Binary(*self)) }
//@ attr fn errors
    #[verifier::exec_allows_no_decreases_clause]
//@end
//@extract spl_frontend/src/ast/error_container.rs :: impl ErrorContainer for BracketedExpression
//@ rewrite vec_extend
//@ open
    open spec fn errors_ok(&self) -> bool { ok_expr(Expression::Bracketed(*self)) }
    open spec fn spec_errors(&self) -> Seq<SplError> { se_expr(Expression::Bracketed(*self)) }
//@ attr fn errors
    #[verifier::exec_allows_no_decreases_clause]
//@end
//@extract spl_frontend/src/ast/error_container.rs :: impl ErrorContainer for UnaryExpression
//@ rewrite vec_extend
//@ open
    open spec fn errors_ok(&self) -> bool { ok_expr(Expression::Unary(*self)) }
    open spec fn spec_errors(&self) -> Seq<SplError> { se_expr(Expression::Unary(*self)) }
//@ attr fn errors
    #[verifier::exec_allows_no_decreases_clause]
//@end
//@extract spl_frontend/src/ast/error_container.rs :: impl ErrorContainer for Expression
//@ open
    open spec fn errors_ok(&self) -> bool { ok_expr(*self) }
    open spec fn spec_errors(&self) -> Seq<SplError> { se_expr(*self) }
//@ attr fn errors
    #[verifier::exec_allows_no_decreases_clause]
//@end
//@extract spl_frontend/src/ast/error_container.rs :: impl ErrorContainer for TypeDeclaration
//@ rewrite vec_extend
//@ open
    open spec fn errors_ok(&self) -> bool { ok_opt_texpr(self.type_expr) }
    open spec fn spec_errors(&self) -> Seq<SplError> { se_tdec(*self) }
//@ attr fn errors
    #[verifier::exec_allows_no_decreases_clause]
//@end
//@extract spl_frontend/src/ast/error_container.rs :: impl ErrorContainer for TypeExpression
//@ rewrite vec_extend
//@ open
    open spec fn errors_ok(&self) -> bool { ok_texpr(*self) }
    open spec fn spec_errors(&self) -> Seq<SplError> { se_texpr(*self) }
//@ attr fn errors
    #[verifier::exec_allows_no_decreases_clause]
//@end
//@extract spl_frontend/src/ast/error_container.rs :: impl ErrorContainer for VariableDeclaration
//@ rewrite vec_extend
//@ open
    open spec fn errors_ok(&self) -> bool { ok_vdec(*self) }
    open spec fn spec_errors(&self) -> Seq<SplError> { se_vdec(*self) }
//@ attr fn errors
    #[verifier::exec_allows_no_decreases_clause]
//@end
//@extract spl_frontend/src/ast/error_container.rs :: impl ErrorContainer for ParameterDeclaration
//@ rewrite vec_extend
//@ open
    open spec fn errors_ok(&self) -> bool { ok_pdec(*self) }
    open spec fn spec_errors(&self) -> Seq<SplError> { se_pdec(*self) }
//@ attr fn errors
    #[verifier::exec_allows_no_decreases_clause]
//@end
//@extract spl_frontend/src/ast/error_container.rs :: impl ErrorContainer for CallStatement
//@ rewrite flat_map_extend vec_extend
//@ open
    open spec fn errors_ok(&self) -> bool { ok_call(*self) }
    open spec fn spec_errors(&self) -> Seq<SplError> { se_call(*self) }
//@ attr fn errors
    #[verifier::exec_allows_no_decreases_clause]
//@ before "extend_flat_map("
let rs =
//@ closure |arg| : &Reference<Expression>
 -> (r: Vec<SplError>)
            requires ok_expr(arg.reference) && errs_fit(se_expr(arg.reference), arg.offset as int),
            ensures r@ == errs_plus(se_expr(arg.reference), arg.offset as int),
//@ before "errors\n    }"
proof { lemma_flat_args(self.arguments, rs@, rs@.len()); }

//@end
//@extract spl_frontend/src/ast/error_container.rs :: impl ErrorContainer for Assignment
//@ rewrite vec_extend
//@ open
    open spec fn errors_ok(&self) -> bool { ok_asg(*self) }
    open spec fn spec_errors(&self) -> Seq<SplError> { se_asg(*self) }
//@ attr fn errors
    #[verifier::exec_allows_no_decreases_clause]
//@end
//@extract spl_frontend/src/ast/error_container.rs :: impl ErrorContainer for IfStatement
//@ rewrite vec_extend
//@ open
    open spec fn errors_ok(&self) -> bool { ok_stmt(Statement::If(*self)) }
    open spec fn spec_errors(&self) -> Seq<SplError> { se_stmt(Statement::If(*self)) }
//@ attr fn errors
    #[verifier::exec_allows_no_decreases_clause]
//@end
//@extract spl_frontend/src/ast/error_container.rs :: impl ErrorContainer for WhileStatement
//@ rewrite vec_extend
//@ open
    open spec fn errors_ok(&self) -> bool { ok_stmt(Statement::While(*self)) }
    open spec fn spec_errors(&self) -> Seq<SplError> { se_stmt(Statement::While(*self)) }
//@ attr fn errors
    #[verifier::exec_allows_no_decreases_clause]
//@end
//@extract spl_frontend/src/ast/error_container.rs :: impl ErrorContainer for BlockStatement
//@ rewrite flat_map_extend
//@ open
    open spec fn errors_ok(&self) -> bool { ok_stmt(Statement::Block(*self)) }
    open spec fn spec_errors(&self) -> Seq<SplError> { se_stmt(Statement::Block(*self)) }
//@ attr fn errors
    #[verifier::exec_allows_no_decreases_clause]
//@ before "extend_flat_map("
proof { assert forall|i: int| 0 <= i < self.statements@.len() implies ok_stmt((#[trigger] self.statements@[i]).reference) && errs_fit(se_stmt(self.statements@[i].reference), self.statements@[i].offset as int) by { lemma_ok_stmts(self.statements, self.statements@.len(), i); } }
        let rs =
//@ closure |stmt| : &Reference<Statement>
 -> (r: Vec<SplError>)
            requires ok_stmt(stmt.reference) && errs_fit(se_stmt(stmt.reference), stmt.offset as int),
            ensures r@ == errs_plus(se_stmt(stmt.reference), stmt.offset as int),
//@ before "errors\n    }"
proof { lemma_flat_stmts(self.statements, rs@, rs@.len()); }

//@end
//@extract spl_frontend/src/ast/error_container.rs :: impl ErrorContainer for Statement
//@ open
    open spec fn errors_ok(&self) -> bool { ok_stmt(*self) }
    open spec fn spec_errors(&self) -> Seq<SplError> { se_stmt(*self) }
//@ attr fn errors
    #[verifier::exec_allows_no_decreases_clause]
//@end
//@extract spl_frontend/src/ast/error_container.rs :: impl ErrorContainer for ProcedureDeclaration
//@ rewrite flat_map_extend vec_extend
//@ open
    open spec fn errors_ok(&self) -> bool { ok_proc(*self) }
    open spec fn spec_errors(&self) -> Seq<SplError> { se_proc(*self) }
//@ attr fn errors
    #[verifier::exec_allows_no_decreases_clause]
//@ before "extend_flat_map(" nth 0 of 3
let rs_p =
//@ before "extend_flat_map(" nth 1 of 3
let rs_v =
//@ before "extend_flat_map(" nth 2 of 3
proof { assert forall|i: int| 0 <= i < self.statements@.len() implies ok_stmt((#[trigger] self.statements@[i]).reference) && errs_fit(se_stmt(self.statements@[i].reference), self.statements@[i].offset as int) by { lemma_ok_stmts(self.statements, self.statements@.len(), i); } }
        let rs_s =
//@ closure |stmt| nth 0 of 3 : &Reference<ParameterDeclaration>
 -> (r: Vec<SplError>)
            requires ok_pdec(stmt.reference) && errs_fit(se_pdec(stmt.reference), stmt.offset as int),
            ensures r@ == errs_plus(se_pdec(stmt.reference), stmt.offset as int),
//@ closure |stmt| nth 1 of 3 : &Reference<VariableDeclaration>
 -> (r: Vec<SplError>)
            requires ok_vdec(stmt.reference) && errs_fit(se_vdec(stmt.reference), stmt.offset as int),
            ensures r@ == errs_plus(se_vdec(stmt.reference), stmt.offset as int),
//@ closure |stmt| nth 2 of 3 : &Reference<Statement>
 -> (r: Vec<SplError>)
            requires ok_stmt(stmt.reference) && errs_fit(se_stmt(stmt.reference), stmt.offset as int),
            ensures r@ == errs_plus(se_stmt(stmt.reference), stmt.offset as int),
//@ before "errors\n    }"
proof {
            lemma_flat_pdecs(self.parameters, rs_p@, rs_p@.len());
            lemma_flat_vdecs(self.variable_declarations, rs_v@, rs_v@.len());
            lemma_flat_stmts(self.statements, rs_s@, rs_s@.len());
        }

//@end
//@extract spl_frontend/src/ast/error_container.rs :: impl ErrorContainer for GlobalDeclaration
//@ open
    open spec fn errors_ok(&self) -> bool { ok_gdec(*self) }
    open spec fn spec_errors(&self) -> Seq<SplError> { se_gdec(*self) }
//@ attr fn errors
    #[verifier::exec_allows_no_decreases_clause]
//@end
//@extract spl_frontend/src/ast/error_container.rs :: impl ErrorContainer for Program
//@ rewrite flat_map_extend
//@ open
    open spec fn errors_ok(&self) -> bool { ok_prog(*self) }
    open spec fn spec_errors(&self) -> Seq<SplError> { se_prog(*self) }
//@ attr fn errors
    #[verifier::exec_allows_no_decreases_clause]
//@ before "extend_flat_map("
let rs =
//@ closure |gd| : &Reference<GlobalDeclaration>
 -> (r: Vec<SplError>)
            requires ok_gdec(gd.reference) && errs_fit(se_gdec(gd.reference), gd.offset as int),
            ensures r@ == errs_plus(se_gdec(gd.reference), gd.offset as int),
//@ before "errors\n    }"
proof { lemma_flat_gdecs(self.global_declarations, rs@, rs@.len()); }

//@end

// ---------- consequences (C03b): nothing dropped, nothing duplicated, each error displaced by the sum of the offsets on its path
/// the number of errors returned equals the number stored (shown for the expression level; same shape everywhere)
pub proof fn lemma_errs_plus_len(es: Seq<SplError>, d: int)
    ensures errs_plus(es, d).len() == es.len(), //# lemma_errs_plus_len
{ }
/// two nested References displace by the sum of their offsets
pub proof fn lemma_errs_plus_compose(es: Seq<SplError>, a: usize, b: usize)
    requires errs_fit(es, a as int), errs_fit(errs_plus(es, a as int), b as int),
    ensures errs_plus(errs_plus(es, a as int), b as int) =~= errs_plus(es, a + b), //# lemma_errs_plus_compose
{
    assert forall|i: int| 0 <= i < es.len() implies errs_plus(errs_plus(es, a as int), b as int)[i] == errs_plus(es, a + b)[i] by {
        assert(range_fits(es[i].0, a as int));
        assert(range_fits(errs_plus(es, a as int)[i].0, b as int));
    }
}

//~assume tree data invariant `errors_ok`: every Reference offset applied to the errors below it is representable in usize, and array-size literals carry no errors (established by the nom parser, out of reach)
//~not_decided whether the errors stored in the tree are the ones SPL prescribes for declaration, main, call, variable rules (table/build.rs: HashMap, closures)
pub proof fn witness_errors(i: AstInfo) {
    let e = Expression::Error(i);
    assert(ok_expr(e));
    assert(se_expr(e) == i.errors@);
}
}
fn main() {}
