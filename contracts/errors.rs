// unit `errors` — C03(b): ErrorContainer::errors() returns every error stored in the tree exactly once, in order,
// displaced by exactly the Reference offsets above it.  Trees of unbounded depth and width.
use vstd::prelude::*;
use std::ops::Range;
use std::ops::Deref;
verus! {
//@include shims.rs
//@include types_error.rs
//@include types_tokens.rs
//@include types_ast.rs
//@include inc_shiftable.rs
//@include inc_reference.rs

//@include inc_errors_spec.rs

// ---------- std behaviour assumed
//~assume derived Clone for SplError is structural (R1: derives are dropped; `clone` returns an equal value)
impl Clone for SplError {
    #[verifier::external_body]
    fn clone(&self) -> (r: Self)
        ensures r == *self,
    { unimplemented!() }
}
#[verifier::external_body]
pub fn vec_extend(a: &mut Vec<SplError>, b: Vec<SplError>)
    ensures final(a)@ == old(a)@ + b@,
{ a.extend(b) }

/// concatenation of the per-element results of a flat_map, in order
pub open spec fn flat(rs: Seq<Vec<SplError>>, n: nat) -> Seq<SplError>
    decreases n
{
    if n == 0 || n > rs.len() { Seq::empty() } else { flat(rs, (n - 1) as nat) + rs[n - 1]@ }
}
//~assume `errors.extend(xs.iter().flat_map(f))` applies f to every element of xs in order and appends the concatenation of the results (std iterator semantics; R6)
#[verifier::external_body]
pub fn extend_flat_map<T, F: Fn(&T) -> Vec<SplError>>(errors: &mut Vec<SplError>, items: &Vec<T>, f: F) -> (rs: Ghost<Seq<Vec<SplError>>>)
    requires forall|i: int| 0 <= i < items@.len() ==> call_requires(f, (&#[trigger] items@[i],)),
    ensures
        rs@.len() == items@.len(),
        forall|i: int| 0 <= i < items@.len() ==> call_ensures(f, (&items@[i],), #[trigger] rs@[i]),
        final(errors)@ == old(errors)@ + flat(rs@, rs@.len()),
{ errors.extend(items.iter().flat_map(f)); Ghost::assume_new() }

// ---------- lemmas connecting flat() with the recursive meaning
pub proof fn lemma_flat_args(v: Vec<Reference<Expression>>, rs: Seq<Vec<SplError>>, n: nat)
    requires rs.len() == v@.len(), n <= v@.len(),
        forall|i: int| 0 <= i < v@.len() ==> (#[trigger] rs[i])@ == errs_plus(se_expr(v@[i].reference), v@[i].offset as int),
    ensures flat(rs, n) == se_args(v, n), //# lemma_flat_args
    decreases n
{ if n > 0 { lemma_flat_args(v, rs, (n - 1) as nat); } }
pub proof fn lemma_flat_stmts(v: Vec<Reference<Statement>>, rs: Seq<Vec<SplError>>, n: nat)
    requires rs.len() == v@.len(), n <= v@.len(),
        forall|i: int| 0 <= i < v@.len() ==> (#[trigger] rs[i])@ == errs_plus(se_stmt(v@[i].reference), v@[i].offset as int),
    ensures flat(rs, n) == se_stmts(v, n), //# lemma_flat_stmts
    decreases n
{ if n > 0 { lemma_flat_stmts(v, rs, (n - 1) as nat); } }
pub proof fn lemma_flat_pdecs(v: Vec<Reference<ParameterDeclaration>>, rs: Seq<Vec<SplError>>, n: nat)
    requires rs.len() == v@.len(), n <= v@.len(),
        forall|i: int| 0 <= i < v@.len() ==> (#[trigger] rs[i])@ == errs_plus(se_pdec(v@[i].reference), v@[i].offset as int),
    ensures flat(rs, n) == se_pdecs(v, n), //# lemma_flat_pdecs
    decreases n
{ if n > 0 { lemma_flat_pdecs(v, rs, (n - 1) as nat); } }
pub proof fn lemma_flat_vdecs(v: Vec<Reference<VariableDeclaration>>, rs: Seq<Vec<SplError>>, n: nat)
    requires rs.len() == v@.len(), n <= v@.len(),
        forall|i: int| 0 <= i < v@.len() ==> (#[trigger] rs[i])@ == errs_plus(se_vdec(v@[i].reference), v@[i].offset as int),
    ensures flat(rs, n) == se_vdecs(v, n), //# lemma_flat_vdecs
    decreases n
{ if n > 0 { lemma_flat_vdecs(v, rs, (n - 1) as nat); } }
pub proof fn lemma_flat_gdecs(v: Vec<Reference<GlobalDeclaration>>, rs: Seq<Vec<SplError>>, n: nat)
    requires rs.len() == v@.len(), n <= v@.len(),
        forall|i: int| 0 <= i < v@.len() ==> (#[trigger] rs[i])@ == errs_plus(se_gdec(v@[i].reference), v@[i].offset as int),
    ensures flat(rs, n) == se_gdecs(v, n), //# lemma_flat_gdecs
    decreases n
{ if n > 0 { lemma_flat_gdecs(v, rs, (n - 1) as nat); } }
pub proof fn lemma_ok_stmts(v: Vec<Reference<Statement>>, n: nat, i: int)
    requires ok_stmts(v, n), n <= v@.len(), 0 <= i < n,
    ensures ok_stmt(v@[i].reference) && errs_fit(se_stmt(v@[i].reference), v@[i].offset as int), //# lemma_ok_stmts
    decreases n
{ if i < n - 1 { lemma_ok_stmts(v, (n - 1) as nat, i); } }

// ---------- the impls, verbatim
//@extract spl_frontend/src/ast/error_container.rs :: impl ErrorContainer for AstInfo
//@ open
    open spec fn errors_ok(&self) -> bool { true }
    open spec fn spec_errors(&self) -> Seq<SplError> { self.errors@ }
//@ after "self.errors.clone()"
;
        assert(r@ =~= self.errors@);
        r
//@ before "self.errors.clone()"
let r =
//@end
//@extract spl_frontend/src/ast/error_container.rs :: impl ErrorContainer for IntLiteral
//@ open
    open spec fn errors_ok(&self) -> bool { true }
    open spec fn spec_errors(&self) -> Seq<SplError> { self.info.errors@ }
//@end
//@extract spl_frontend/src/ast/error_container.rs :: impl ErrorContainer for Identifier
//@ open
    open spec fn errors_ok(&self) -> bool { true }
    open spec fn spec_errors(&self) -> Seq<SplError> { self.info.errors@ }
//@end
//@extract spl_frontend/src/ast/error_container.rs :: impl ErrorContainer for ArrayAccess
//@ rewrite vec_extend
//@ open
    open spec fn errors_ok(&self) -> bool { ok_var(Variable::ArrayAccess(*self)) }
    open spec fn spec_errors(&self) -> Seq<SplError> { se_var(Variable::ArrayAccess(*self)) }
//@ attr fn errors
    #[verifier::exec_allows_no_decreases_clause]
//@end
//@extract spl_frontend/src/ast/error_container.rs :: impl ErrorContainer for Variable
//@ open
    open spec fn errors_ok(&self) -> bool { ok_var(*self) }
    open spec fn spec_errors(&self) -> Seq<SplError> { se_var(*self) }
//@ attr fn errors
    #[verifier::exec_allows_no_decreases_clause]
//@end
//@extract spl_frontend/src/ast/error_container.rs :: impl ErrorContainer for BinaryExpression
//@ rewrite vec_extend
//@ open
    open spec fn errors_ok(&self) -> bool { ok_expr(Expression::Binary(*self)) }
    open spec fn spec_errors(&self) -> Seq<SplError> { se_expr(Expression::Binary(*self)) }
//@ attr fn errors
    #[verifier::exec_allows_no_decreases_clause]
//@end
//@extract spl_frontend/src/ast/error_container.rs :: impl ErrorContainer for BracketedExpression
//@ rewrite vec_extend
//@ open
    open spec fn errors_ok(&self) -> bool { ok_expr(Expression::Bracketed(*self)) }
    open spec fn spec_errors(&self) -> Seq<SplError> { se_expr(Expression::Bracketed(*self)) }
//@ attr fn errors
    #[verifier::exec_allows_no_decreases_clause]
//@end
//@extract spl_frontend/src/ast/error_container.rs :: impl ErrorContainer for UnaryExpression
//@ rewrite vec_extend
//@ open
    open spec fn errors_ok(&self) -> bool { ok_expr(Expression::Unary(*self)) }
    open spec fn spec_errors(&self) -> Seq<SplError> { se_expr(Expression::Unary(*self)) }
//@ attr fn errors
    #[verifier::exec_allows_no_decreases_clause]
//@end
//@extract spl_frontend/src/ast/error_container.rs :: impl ErrorContainer for Expression
//@ open
    open spec fn errors_ok(&self) -> bool { ok_expr(*self) }
    open spec fn spec_errors(&self) -> Seq<SplError> { se_expr(*self) }
//@ attr fn errors
    #[verifier::exec_allows_no_decreases_clause]
//@end
//@extract spl_frontend/src/ast/error_container.rs :: impl ErrorContainer for TypeDeclaration
//@ rewrite vec_extend
//@ open
    open spec fn errors_ok(&self) -> bool { ok_opt_texpr(self.type_expr) }
    open spec fn spec_errors(&self) -> Seq<SplError> { se_tdec(*self) }
//@ attr fn errors
    #[verifier::exec_allows_no_decreases_clause]
//@end
//@extract spl_frontend/src/ast/error_container.rs :: impl ErrorContainer for TypeExpression
//@ rewrite vec_extend
//@ open
    open spec fn errors_ok(&self) -> bool { ok_texpr(*self) }
    open spec fn spec_errors(&self) -> Seq<SplError> { se_texpr(*self) }
//@ attr fn errors
    #[verifier::exec_allows_no_decreases_clause]
//@end
//@extract spl_frontend/src/ast/error_container.rs :: impl ErrorContainer for VariableDeclaration
//@ rewrite vec_extend
//@ open
    open spec fn errors_ok(&self) -> bool { ok_vdec(*self) }
    open spec fn spec_errors(&self) -> Seq<SplError> { se_vdec(*self) }
//@ attr fn errors
    #[verifier::exec_allows_no_decreases_clause]
//@end
//@extract spl_frontend/src/ast/error_container.rs :: impl ErrorContainer for ParameterDeclaration
//@ rewrite vec_extend
//@ open
    open spec fn errors_ok(&self) -> bool { ok_pdec(*self) }
    open spec fn spec_errors(&self) -> Seq<SplError> { se_pdec(*self) }
//@ attr fn errors
    #[verifier::exec_allows_no_decreases_clause]
//@end
//@extract spl_frontend/src/ast/error_container.rs :: impl ErrorContainer for CallStatement
//@ rewrite flat_map_extend vec_extend
//@ open
    open spec fn errors_ok(&self) -> bool { ok_call(*self) }
    open spec fn spec_errors(&self) -> Seq<SplError> { se_call(*self) }
//@ attr fn errors
    #[verifier::exec_allows_no_decreases_clause]
//@ before "extend_flat_map("
let rs =
//@ closure |arg| : &Reference<Expression>
 -> (r: Vec<SplError>)
            requires ok_expr(arg.reference) && errs_fit(se_expr(arg.reference), arg.offset as int),
            ensures r@ == errs_plus(se_expr(arg.reference), arg.offset as int),
//@ before "errors\n    }"
proof { lemma_flat_args(self.arguments, rs@, rs@.len()); }

//@end
//@extract spl_frontend/src/ast/error_container.rs :: impl ErrorContainer for Assignment
//@ rewrite vec_extend
//@ open
    open spec fn errors_ok(&self) -> bool { ok_asg(*self) }
    open spec fn spec_errors(&self) -> Seq<SplError> { se_asg(*self) }
//@ attr fn errors
    #[verifier::exec_allows_no_decreases_clause]
//@end
//@extract spl_frontend/src/ast/error_container.rs :: impl ErrorContainer for IfStatement
//@ rewrite vec_extend
//@ open
    open spec fn errors_ok(&self) -> bool { ok_stmt(Statement::If(*self)) }
    open spec fn spec_errors(&self) -> Seq<SplError> { se_stmt(Statement::If(*self)) }
//@ attr fn errors
    #[verifier::exec_allows_no_decreases_clause]
//@end
//@extract spl_frontend/src/ast/error_container.rs :: impl ErrorContainer for WhileStatement
//@ rewrite vec_extend
//@ open
    open spec fn errors_ok(&self) -> bool { ok_stmt(Statement::While(*self)) }
    open spec fn spec_errors(&self) -> Seq<SplError> { se_stmt(Statement::While(*self)) }
//@ attr fn errors
    #[verifier::exec_allows_no_decreases_clause]
//@end
//@extract spl_frontend/src/ast/error_container.rs :: impl ErrorContainer for BlockStatement
//@ rewrite flat_map_extend
//@ open
    open spec fn errors_ok(&self) -> bool { ok_stmt(Statement::Block(*self)) }
    open spec fn spec_errors(&self) -> Seq<SplError> { se_stmt(Statement::Block(*self)) }
//@ attr fn errors
    #[verifier::exec_allows_no_decreases_clause]
//@ before "extend_flat_map("
proof { assert forall|i: int| 0 <= i < self.statements@.len() implies ok_stmt((#[trigger] self.statements@[i]).reference) && errs_fit(se_stmt(self.statements@[i].reference), self.statements@[i].offset as int) by { lemma_ok_stmts(self.statements, self.statements@.len(), i); } }
        let rs =
//@ closure |stmt| : &Reference<Statement>
 -> (r: Vec<SplError>)
            requires ok_stmt(stmt.reference) && errs_fit(se_stmt(stmt.reference), stmt.offset as int),
            ensures r@ == errs_plus(se_stmt(stmt.reference), stmt.offset as int),
//@ before "errors\n    }"
proof { lemma_flat_stmts(self.statements, rs@, rs@.len()); }

//@end
//@extract spl_frontend/src/ast/error_container.rs :: impl ErrorContainer for Statement
//@ open
    open spec fn errors_ok(&self) -> bool { ok_stmt(*self) }
    open spec fn spec_errors(&self) -> Seq<SplError> { se_stmt(*self) }
//@ attr fn errors
    #[verifier::exec_allows_no_decreases_clause]
//@end
//@extract spl_frontend/src/ast/error_container.rs :: impl ErrorContainer for ProcedureDeclaration
//@ rewrite flat_map_extend vec_extend
//@ open
    open spec fn errors_ok(&self) -> bool { ok_proc(*self) }
    open spec fn spec_errors(&self) -> Seq<SplError> { se_proc(*self) }
//@ attr fn errors
    #[verifier::exec_allows_no_decreases_clause]
//@ before "extend_flat_map(" nth 0 of 3
let rs_p =
//@ before "extend_flat_map(" nth 1 of 3
let rs_v =
//@ before "extend_flat_map(" nth 2 of 3
proof { assert forall|i: int| 0 <= i < self.statements@.len() implies ok_stmt((#[trigger] self.statements@[i]).reference) && errs_fit(se_stmt(self.statements@[i].reference), self.statements@[i].offset as int) by { lemma_ok_stmts(self.statements, self.statements@.len(), i); } }
        let rs_s =
//@ closure |stmt| nth 0 of 3 : &Reference<ParameterDeclaration>
 -> (r: Vec<SplError>)
            requires ok_pdec(stmt.reference) && errs_fit(se_pdec(stmt.reference), stmt.offset as int),
            ensures r@ == errs_plus(se_pdec(stmt.reference), stmt.offset as int),
//@ closure |stmt| nth 1 of 3 : &Reference<VariableDeclaration>
 -> (r: Vec<SplError>)
            requires ok_vdec(stmt.reference) && errs_fit(se_vdec(stmt.reference), stmt.offset as int),
            ensures r@ == errs_plus(se_vdec(stmt.reference), stmt.offset as int),
//@ closure |stmt| nth 2 of 3 : &Reference<Statement>
 -> (r: Vec<SplError>)
            requires ok_stmt(stmt.reference) && errs_fit(se_stmt(stmt.reference), stmt.offset as int),
            ensures r@ == errs_plus(se_stmt(stmt.reference), stmt.offset as int),
//@ before "errors\n    }"
proof {
            lemma_flat_pdecs(self.parameters, rs_p@, rs_p@.len());
            lemma_flat_vdecs(self.variable_declarations, rs_v@, rs_v@.len());
            lemma_flat_stmts(self.statements, rs_s@, rs_s@.len());
        }

//@end
//@extract spl_frontend/src/ast/error_container.rs :: impl ErrorContainer for GlobalDeclaration
//@ open
    open spec fn errors_ok(&self) -> bool { ok_gdec(*self) }
    open spec fn spec_errors(&self) -> Seq<SplError> { se_gdec(*self) }
//@ attr fn errors
    #[verifier::exec_allows_no_decreases_clause]
//@end
//@extract spl_frontend/src/ast/error_container.rs :: impl ErrorContainer for Program
//@ rewrite flat_map_extend
//@ open
    open spec fn errors_ok(&self) -> bool { ok_prog(*self) }
    open spec fn spec_errors(&self) -> Seq<SplError> { se_prog(*self) }
//@ attr fn errors
    #[verifier::exec_allows_no_decreases_clause]
//@ before "extend_flat_map("
let rs =
//@ closure |gd| : &Reference<GlobalDeclaration>
 -> (r: Vec<SplError>)
            requires ok_gdec(gd.reference) && errs_fit(se_gdec(gd.reference), gd.offset as int),
            ensures r@ == errs_plus(se_gdec(gd.reference), gd.offset as int),
//@ before "errors\n    }"
proof { lemma_flat_gdecs(self.global_declarations, rs@, rs@.len()); }

//@end

// ---------- consequences (C03b): nothing dropped, nothing duplicated, each error displaced by the sum of the offsets on its path
/// the number of errors returned equals the number stored (shown for the expression level; same shape everywhere)
pub proof fn lemma_errs_plus_len(es: Seq<SplError>, d: int)
    ensures errs_plus(es, d).len() == es.len(), //# lemma_errs_plus_len
{ }
/// two nested References displace by the sum of their offsets
pub proof fn lemma_errs_plus_compose(es: Seq<SplError>, a: usize, b: usize)
    requires errs_fit(es, a as int), errs_fit(errs_plus(es, a as int), b as int),
    ensures errs_plus(errs_plus(es, a as int), b as int) =~= errs_plus(es, a + b), //# lemma_errs_plus_compose
{
    assert forall|i: int| 0 <= i < es.len() implies errs_plus(errs_plus(es, a as int), b as int)[i] == errs_plus(es, a + b)[i] by {
        assert(range_fits(es[i].0, a as int));
        assert(range_fits(errs_plus(es, a as int)[i].0, b as int));
    }
}

//~assume tree data invariant `errors_ok`: every Reference offset applied to the errors below it is representable in usize, and array-size literals carry no errors (established by the nom parser, out of reach)
//~not_decided (here) whether the errors stored in the tree are the ones SPL prescribes: decided for the declaration / main rules in unit `decls` and for the semantic rules in unit `rules`; syntax errors (nom parser) are not decided anywhere
pub proof fn witness_errors(i: AstInfo) {
    let e = Expression::Error(i);
    assert(ok_expr(e));
    assert(se_expr(e) == i.errors@);
}
}
fn main() {}
