// unit `docchange` — C08: each content change is converted against the text as left by its predecessor; a change
// without a range replaces the whole document
use vstd::prelude::*;
use std::ops::Range;
verus! {
//@include shims.rs
//@include inc_positions.rs

//~assume Range<usize>::clone returns an equal range (assume_specification through vstd's `cloned`)
pub assume_specification<Idx: Clone> [<Range<Idx> as Clone>::clone] (r: &Range<Idx>) -> (c: Range<Idx>)
    ensures cloned(r.start, c.start), cloned(r.end, c.end);

// R7 stand-in for lsp_types::TextDocumentContentChangeEvent (same public fields)
pub struct TextDocumentContentChangeEvent { pub range: Option<PosRange>, pub range_length: Option<u32>, pub text: String }
//@extract spl_frontend/src/lib.rs :: struct TextChange
//@ rewrite drop_derive
//@end

/// byte length of a text, and the text with byte range r replaced by t (String::len / String::replace_range)
pub uninterp spec fn byte_len(s: Seq<char>) -> usize;
pub uninterp spec fn replaced(s: Seq<char>, r: Range<usize>, t: Seq<char>) -> Seq<char>;
//~assume String::len / String::replace_range are the std functions (abstract byte_len / replaced; replace_range panics unless the range lies on char boundaries inside the text: Kani unit `positions`, harness insertion_index_matches_lsp, shows get_insertion_index returns such an index, bounded)
#[verifier::external_body]
pub fn string_len(s: &String) -> (n: usize)
    ensures n == byte_len(s@),
{ s.len() }
#[verifier::external_body]
pub fn string_replace_range(s: &mut String, r: Range<usize>, t: &str)
    ensures final(s)@ == replaced(old(s)@, r, t@),
{ s.replace_range(r, t) }

//~assume the closure `|change|` of to_text_changes is applied to every content change in order (into_iter().map().collect(); R6); AnalyzedSource::update applies each TextChange with replace_range in order (inside a fold together with the nom lexer); the broker stores the result under the right key (async)
//~not_decided equality of server and client text over whole histories (needs the async broker and the LSP client model); only the per-change step is decided
//@extract lsp4spl/src/document.rs :: fn to_text_changes :: closure |change|
//@ rewrite string_replace_range string_len
//@ lift pub fn to_text_changes_closure(change: TextDocumentContentChangeEvent, temp_text: &mut String) -> (out: TextChange)
//@ sig
    requires text_fits(old(temp_text)@),
    ensures
        // "each relative to its predecessor": positions are resolved against the text left by the previous change
        change.range is Some ==> out.range.start == idx_of(change.range->0.start, old(temp_text)@) && out.range.end == idx_of(change.range->0.end, old(temp_text)@), //# to_text_changes::ranged_change_relative_to_predecessor
        // "full-text replacements"
        change.range is None ==> out.range.start == 0 && out.range.end == byte_len(old(temp_text)@), //# to_text_changes::change_without_range_replaces_whole_document
        out.text@ == change.text@, //# to_text_changes::replacement_text_kept
        final(temp_text)@ == replaced(old(temp_text)@, out.range, change.text@), //# to_text_changes::temporary_text_advanced_by_exactly_this_change
//@end

// ---------- the server side of a change: AnalyzedSource::update applies every TextChange to its copy of the text, in order
//@include types_error.rs
//@include types_tokens.rs
//@include types_ast.rs
// R7 stand-ins: the symbol table and the parser's token stream are only passed through by the update step
pub struct GlobalTable { pub opaque: u8 }
pub struct TokenStream<'a> { pub tokens: &'a [Token], pub token_change: TokenChange }
//@extract spl_frontend/src/lib.rs :: struct AnalyzedSource
//@ rewrite drop_derive
//@end
pub trait ToRange {
    spec fn range_spec(&self) -> Range<usize>;
    fn to_range(&self) -> (r: Range<usize>)
        ensures r == self.range_spec();
}
//@extract spl_frontend/src/lib.rs :: impl ToRange for TextChange
//@ open
    open spec fn range_spec(&self) -> Range<usize> { self.range }
//@end
/// what the incremental lexer / parser return (nom code, out of reach): abstract
pub uninterp spec fn lexed(new_text: Seq<char>, tokens: Seq<Token>, change: TextChange) -> (Seq<Token>, TokenChange);
pub uninterp spec fn parsed(program: Program, tokens: Seq<Token>, tc: TokenChange) -> Program;
//~assume lexer::update / parser::update / TokenStream::new_with_change (nom, pointer arithmetic) are abstract functions of their arguments
pub mod lexer {
    use super::*;
    #[verifier::external_body]
    pub fn update(new_text: &str, tokens: Vec<Token>, change: &TextChange) -> (r: (Vec<Token>, TokenChange))
        ensures r.0@ == lexed(new_text@, tokens@, *change).0, r.1 == lexed(new_text@, tokens@, *change).1,
    { unimplemented!() }
}
pub mod parser {
    use super::*;
    #[verifier::external_body]
    pub fn update(program: Program, input: TokenStream) -> (r: Program)
        ensures r == parsed(program, input.tokens@, input.token_change),
    { unimplemented!() }
}
impl<'a> TokenStream<'a> {
    #[verifier::external_body]
    pub fn new_with_change(tokens: &'a [Token], token_change: TokenChange) -> (r: Self)
        ensures r.tokens@ == tokens@, r.token_change == token_change,
    { unimplemented!() }
}
//~assume `changes.into_iter().fold(self, f)` applies the closure to the changes in order (R6)
//@extract spl_frontend/src/lib.rs :: impl AnalyzedSource :: fn update :: closure |mut acc, change|
//@ rewrite string_replace_range_acc range_is_empty
//@ lift pub fn update_step(mut acc: AnalyzedSource, change: TextChange) -> (r: AnalyzedSource)
//@ sig
    ensures
        r.text@ == replaced(acc.text@, change.range, change.text@), //# AnalyzedSource::update::text_replaced_by_exactly_this_change
        r.tokens@ == lexed(r.text@, acc.tokens@, change).0, //# AnalyzedSource::update::tokens_relexed_against_the_new_text
        r.ast == parsed(acc.ast, r.tokens@, lexed(r.text@, acc.tokens@, change).1), //# AnalyzedSource::update::tree_reparsed_with_the_lexer_window
        r.table == acc.table,
//@end


// ---------- AnalyzedSource::update as a whole: what happens around the fold
/// the document after the steps of all changes, in order (each step is `update_step` above); table building and semantic analysis (nom-free, but HashMap and trait recursion: units `decls`, `rules`)
pub uninterp spec fn folded(src: AnalyzedSource, changes: Seq<TextChange>) -> AnalyzedSource;
pub uninterp spec fn built(ast: Program) -> (Program, GlobalTable);
pub uninterp spec fn analyzed(ast: Program, table: GlobalTable) -> Program;
//~assume (R13) the fold applies `update_step` to the changes in order; table::build / table::analyze are functions of their arguments (named `built`, `analyzed`; their rules are proved in units `decls` and `rules`)
#[verifier::external_body]
pub fn fold_changes(src: AnalyzedSource, changes: Vec<TextChange>) -> (r: AnalyzedSource)
    ensures r == folded(src, changes@),
{ unimplemented!() }
pub mod table {
    use super::*;
    #[verifier::external_body]
    pub fn build(program: &mut Program) -> (t: GlobalTable)
        ensures (*final(program), t) == built(*old(program)),
    { unimplemented!() }
    #[verifier::external_body]
    pub fn analyze(program: &mut Program, table: &GlobalTable)
        ensures *final(program) == analyzed(*old(program), *table),
    { unimplemented!() }
}
/// "No edit history may leave stale, missing, duplicated or misplaced information behind": a tree that was not re-parsed still carries its build and
/// semantic diagnostics, so building and analysing it again would double them — an update without changes must leave the document as it is (D20)
pub open spec fn update_result(src: AnalyzedSource, changes: Seq<TextChange>) -> AnalyzedSource {
    if changes.len() == 0 { src } else {
        let f = folded(src, changes);
        AnalyzedSource { text: f.text, tokens: f.tokens, ast: analyzed(built(f.ast).0, built(f.ast).1), table: built(f.ast).1 }
    }
}
//@extract spl_frontend/src/lib.rs :: impl AnalyzedSource :: fn update
//@ rewrite fold_changes
//@ ret r
//@ sig
        ensures
            changes@.len() == 0 ==> r == self, //# AnalyzedSource::update::without_changes_nothing_is_analysed_again
            r == update_result(self, changes@), //# AnalyzedSource::update::fold_then_build_then_analyse
//@end
pub proof fn witness_docchange() {
    let p = Position { line: 0, character: 0 };
    assert(pos_le(p, p));
}
// ---------- the last link of C03: an error becomes a published diagnostic
// R7 stand-ins: lsp_types::Diagnostic (same public fields), DiagnosticSeverity (newtype with its ERROR constant), the remaining field types opaque
pub struct DiagnosticSeverity(pub i32);
impl DiagnosticSeverity { pub const ERROR: DiagnosticSeverity = DiagnosticSeverity(1); }
#[verifier::external_body] pub struct NumberOrString { pub opaque: u8 }
#[verifier::external_body] pub struct CodeDescription { pub opaque: u8 }
#[verifier::external_body] pub struct DiagnosticRelatedInformation { pub opaque: u8 }
#[verifier::external_body] pub struct DiagnosticTag { pub opaque: u8 }
#[verifier::external_body] pub struct JsonValue { pub opaque: u8 }
pub struct Diagnostic { pub range: PosRange, pub severity: Option<DiagnosticSeverity>, pub code: Option<NumberOrString>, pub code_description: Option<CodeDescription>, pub source: Option<String>,
    pub message: String, pub related_information: Option<Vec<DiagnosticRelatedInformation>>, pub tags: Option<Vec<DiagnosticTag>>, pub data: Option<JsonValue> }
/// what `Display` renders for an error message is named, not modelled
pub uninterp spec fn message_text_of(m: ErrorMessage) -> Seq<char>;
#[verifier::external_body]
pub fn message_text(m: &ErrorMessage) -> (r: String)
    ensures r@ == message_text_of(*m),
{ unimplemented!() }
//@extract lsp4spl/src/document.rs :: fn create_diagnostic
//@ rewrite message_to_string
//@ ret d
//@ sig
    requires text_fits(text@),
    ensures
        d.range.start == pos_of(err.0.start, text@) && d.range.end == pos_of(err.0.end, text@), //# create_diagnostic::on_the_error_s_range_as_lsp_positions
        d.severity == Some(DiagnosticSeverity(1)) && d.message@ == message_text_of(err.1), //# create_diagnostic::an_error_with_the_message_of_its_rule
//@end

}
fn main() {}
