// unit `docchange` — C08: each content change is converted against the text as left by its predecessor; a change
// without a range replaces the whole document
use vstd::prelude::*;
use std::ops::Range;
verus! {
//@include shims.rs
//@include inc_positions.rs

//~assume Range<usize>::clone returns an equal range (assume_specification through vstd's `cloned`)
pub assume_specification<Idx: Clone> [<Range<Idx> as Clone>::clone] (r: &Range<Idx>) -> (c: Range<Idx>)
    ensures cloned(r.start, c.start), cloned(r.end, c.end);

// R7 stand-in for lsp_types::TextDocumentContentChangeEvent (same public fields)
pub struct TextDocumentContentChangeEvent { pub range: Option<PosRange>, pub range_length: Option<u32>, pub text: String }
//@extract spl_frontend/src/lib.rs :: struct TextChange
//@ rewrite drop_derive
//@end

/// byte length of a text, and the text with byte range r replaced by t (String::len / String::replace_range)
pub uninterp spec fn byte_len(s: Seq<char>) -> usize;
pub uninterp spec fn replaced(s: Seq<char>, r: Range<usize>, t: Seq<char>) -> Seq<char>;
//~assume String::len / String::replace_range are the std functions (abstract byte_len / replaced; replace_range panics unless the range lies on char boundaries inside the text: Kani unit `positions`, harness insertion_index_matches_lsp, shows get_insertion_index returns such an index, bounded)
#[verifier::external_body]
pub fn string_len(s: &String) -> (n: usize)
    ensures n == byte_len(s@),
{ s.len() }
#[verifier::external_body]
pub fn string_replace_range(s: &mut String, r: Range<usize>, t: &str)
    ensures final(s)@ == replaced(old(s)@, r, t@),
{ s.replace_range(r, t) }

//~assume the closure `|change|` of to_text_changes is applied to every content change in order (into_iter().map().collect(); R6); AnalyzedSource::update applies each TextChange with replace_range in order (inside a fold together with the nom lexer); the broker stores the result under the right key (async)
//~not_decided equality of server and client text over whole histories (needs the async broker and the LSP client model); only the per-change step is decided
//@extract lsp4spl/src/document.rs :: fn to_text_changes :: closure |change|
//@ rewrite string_replace_range string_len
//@ lift pub fn to_text_changes_closure(change: TextDocumentContentChangeEvent, temp_text: &mut String) -> (out: TextChange)
//@ sig
    requires text_fits(old(temp_text)@),
    ensures
        // "each relative to its predecessor": positions are resolved against the text left by the previous change
        change.range is Some ==> out.range.start == idx_of(change.range->0.start, old(temp_text)@) && out.range.end == idx_of(change.range->0.end, old(temp_text)@), //# to_text_changes::ranged_change_relative_to_predecessor
        // "full-text replacements"
        change.range is None ==> out.range.start == 0 && out.range.end == byte_len(old(temp_text)@), //# to_text_changes::change_without_range_replaces_whole_document
        out.text@ == change.text@, //# to_text_changes::replacement_text_kept
        final(temp_text)@ == replaced(old(temp_text)@, out.range, change.text@), //# to_text_changes::temporary_text_advanced_by_exactly_this_change
//@end

pub proof fn witness_docchange() {
    let p = Position { line: 0, character: 0 };
    assert(pos_le(p, p));
}
}
fn main() {}
