use vstd::prelude::*;
use std::ops::Range;
verus! {
//@include shims.rs
//@include types_error.rs
//@include types_tokens.rs
//@include types_ast.rs
pub trait ToRange { fn to_range(&self) -> Range<usize>; }
impl ToRange for AstInfo { fn to_range(&self) -> Range<usize> { self.range.start..self.range.end } }
impl ToRange for Identifier { fn to_range(&self) -> Range<usize> { self.info.to_range() } }
//@extract spl_frontend/src/ast.rs :: derive ToRange :: enum TypeExpression
//@end
//@extract spl_frontend/src/ast.rs :: derive ToRange :: struct BinaryExpression
//@end
}
fn main() {}
