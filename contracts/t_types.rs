use vstd::prelude::*;
use std::ops::Range;
verus! {
//@include shims.rs
//@include types_error.rs
//@include types_tokens.rs
}
fn main() {}
