// shared by units `window` (C07, producer side) and `reuse` (C01, consumer side): what a change window means
pub open spec fn wf_change(tc: &TokenChange) -> bool {
    tc.deletion_range.start <= tc.deletion_range.end && tc.deletion_range.end + tc.insertion_len <= usize::MAX
}
/// old token index i is not deleted by the window
pub open spec fn survives(tc: &TokenChange, i: int) -> bool {
    i < tc.deletion_range.start || i >= tc.deletion_range.end
}
/// where a surviving old token sits in the new sequence
pub open spec fn new_pos(tc: &TokenChange, i: int) -> int {
    if i >= tc.deletion_range.end { i + tc.insertion_len - (tc.deletion_range.end - tc.deletion_range.start) } else { i }
}
/// The sentence of C07 as a predicate: tokens before the window are the old ones untouched, tokens after it are the old ones
/// (already shifted: `old` is the sequence of shifted old tokens).  Generic in the element type.
pub open spec fn truthful<T>(old: Seq<T>, new: Seq<T>, tc: &TokenChange) -> bool {
    &&& tc.deletion_range.end <= old.len()
    &&& new.len() == old.len() - (tc.deletion_range.end - tc.deletion_range.start) + tc.insertion_len
    &&& forall|i: int| 0 <= i < tc.deletion_range.start ==> new[i] == old[i]
    &&& forall|i: int| tc.deletion_range.end <= i < old.len() ==> new[new_pos(tc, i)] == old[i]
}

