// unit `hover` — C14 (first sentence): what `hover` answers once the document cursor has been obtained (R6 `iflet` lifting of the async handler)
use vstd::prelude::*;
use std::ops::Range;
use std::collections::HashMap;
use std::fmt::Debug;
verus! {
//@include shims.rs
//@include types_error.rs
//@include types_tokens.rs
//@include types_ast.rs
//@include inc_positions.rs

//@include inc_cursor.rs

// R7 stand-in: lsp_types::Hover as an opaque type; what `create_hover` renders for an entry over a range is named, not modelled
#[verifier::external_body]
pub struct Hover { pub opaque: u8 }
pub uninterp spec fn hover_of(entry: Entry, range: PosRange) -> Hover;
//~assume `create_hover(entry, range)` (Display of the entry, `to_spl`, string concatenation of the doc comments) is a function of its arguments, named `hover_of`; the rendered text (kind, name, ref marker, resolved type, doc) is not decided
//@extract lsp4spl/src/features/hover.rs :: fn create_hover
//@ ret h
//@ sig
    ensures h == hover_of(*entry, range),
//@ assume_body fn create_hover
//@end
//@extract lsp4spl/src/features.rs :: impl ToRange for Ident
//@ open
    open spec fn range_spec(&self) -> Range<usize> { self.range }
//@end

/// "the declaration it is bound to": inside a type declaration the global entity of that name, inside a procedure local scope before global scope
pub open spec fn hover_entry<'a>(doc: &'a AnalyzedSource, context: &'a Option<GlobalEntry>, ident: Option<Ident>) -> Option<Entry<'a>> {
    match (ident, context) {
        (Some(id), Some(GlobalEntry::Type(_))) => if gmap(doc.table).contains_key(id.value@) {
            Some(match gmap(doc.table)[id.value@] { GlobalEntry::Type(t) => Entry::Type(&t), GlobalEntry::Procedure(q) => Entry::Procedure(&q) }) } else { None },
        (Some(id), Some(GlobalEntry::Procedure(p))) => lookup_spec(scope_of(doc, p), id.value@),
        _ => None,
    }
}
pub open spec fn hover_answers(r: std::result::Result<Option<Hover>, Report>, want: Option<Entry>, ident: Option<Ident>, text: Seq<char>) -> bool {
    r is Ok && match want {
        Some(e) => r->Ok_0 == Some(hover_of(e, PosRange { start: pos_of(ident->0.range.start, text), end: pos_of(ident->0.range.end, text) })),
        None => r->Ok_0 is None,
    }
}
//@extract lsp4spl/src/features/hover.rs :: fn hover :: iflet cursor
//@ rewrite map_entry_from map_inline or_else_inline
//@ lift pub fn hover_at(cursor: DocumentCursor) -> (r: std::result::Result<Option<Hover>, Report>)
//@ sig
    requires text_fits(cursor.doc.text@),
    ensures
        hover_answers(r, hover_entry(&cursor.doc, &cursor.context, cursor_ident(cursor)), cursor_ident(cursor), cursor.doc.text@), //# hover::the_declaration_the_identifier_is_bound_to_over_exactly_its_range
//@end
//~not_decided the rendered hover text (Display/format!); `doc_cursor` and `DocumentCursor::ident` are under contract in unit `cursor`
pub proof fn witness_hover() {
    let r: Range<usize> = 1usize..2usize;
    assert(r.start < r.end);
}
}
fn main() {}
