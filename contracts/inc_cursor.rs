// the cursor vocabulary plus `DocumentCursor::ident` by contract only (its body is verified in unit `cursor`)
//@include inc_cursor_types.rs
//~assume `DocumentCursor::ident` returns the first token whose range contains the cursor index, as an Ident with that token's name and text range, if it is an identifier token (proved in unit `cursor`, used here by contract)
//@extract lsp4spl/src/features.rs :: impl DocumentCursor :: fn ident
//@ ret r
//@ sig
        ensures same_ident(r, cursor_ident(*self)),
//@ assume_body fn ident
//@end
