// unit `signature` — C14: active parameter = number of commas between the opening parenthesis and the cursor
use vstd::prelude::*;
use std::ops::Range;
use std::ops::Deref;
verus! {
//@include shims.rs
//@include types_error.rs
//@include types_tokens.rs

// R7 stand-in for lsp_types::ParameterInformation (same public fields; get_active_param only asks whether the slice is empty), Documentation opaque.
#[verifier::external_body]
pub struct Documentation { pub opaque: u8 }
pub enum ParameterLabel { Simple(String), LabelOffsets([u32; 2]) }
pub struct ParameterInformation { pub label: ParameterLabel, pub documentation: Option<Documentation> }

// ---------- spec vocabulary: the sentence of C14
/// number of `,` tokens among the first `upto` tokens that start before the cursor
pub open spec fn count_commas_before(tokens: Seq<Token>, index: int, upto: int) -> nat
    decreases upto
{
    if upto <= 0 { 0 } else {
        count_commas_before(tokens, index, upto - 1) +
        (if tokens[upto-1].range.start < index && tokens[upto-1].token_type is Comma { 1nat } else { 0nat })
    }
}
pub open spec fn sorted_by_start(tokens: Seq<Token>) -> bool {
    forall|i: int, j: int| 0 <= i < j < tokens.len() ==> tokens[i].range.start <= tokens[j].range.start
}
pub proof fn lemma_count_stable(tokens: Seq<Token>, index: int, from: int, to: int)
    requires 0 <= from <= to <= tokens.len(), forall|k: int| from <= k < to ==> tokens[k].range.start >= index,
    ensures count_commas_before(tokens, index, to) == count_commas_before(tokens, index, from), //# lemma_count_stable
    decreases to - from
{
    if from < to { lemma_count_stable(tokens, index, from, to - 1); }
}

//~assume the token slice handed to get_active_param is ordered by start offset (tiling of C06; lexer out of reach) and has fewer than u32::MAX tokens
//@extract lsp4spl/src/features/signature_help.rs :: fn get_active_param
//@ ret r
//@ sig
    requires
        sorted_by_start(tokens@),
        tokens@.len() < u32::MAX,
    ensures
        params@.len() == 0 ==> r is None, //# get_active_param::none_without_parameters
        params@.len() > 0 ==> r is Some && r->0 as nat == count_commas_before(tokens@, *index as int, tokens@.len() as int), //# get_active_param::commas_before_cursor
//@ before "tokens {"
it: 
//@ loop 0
            invariant_except_break
                param_index as nat == count_commas_before(tokens@, *index as int, it.index@ as int),
            invariant
                sorted_by_start(tokens@),
                tokens@.len() < u32::MAX,
                it.seq().len() == tokens@.len(),
                forall|k: int| 0 <= k < tokens@.len() ==> *it.seq()[k] == tokens@[k],
                0 <= it.index@ <= tokens@.len(),
                param_index <= it.index@,
            ensures
                param_index as nat == count_commas_before(tokens@, *index as int, tokens@.len() as int),
//@ after "for token in tokens {"
            assert(*token == tokens@[it.index@ as int]);
//@ before "break;"
                proof { lemma_count_stable(tokens@, *index as int, it.index@ as int, tokens@.len() as int); }
//@end

// ---------- which call the cursor is in: find_call_stmt_in_stmt
//@include types_ast.rs
//@include inc_reference.rs
//~assume Range<usize>::clone returns an equal range (assume_specification through vstd's `cloned`)
pub assume_specification<Idx: Clone> [<Range<Idx> as Clone>::clone] (r: &Range<Idx>) -> (c: Range<Idx>)
    ensures cloned(r.start, c.start), cloned(r.end, c.end);
//@extract spl_frontend/src/ast.rs :: impl<T> AsRef<T> for Reference<T>
//@ ret r fn as_ref
//@ sig fn as_ref
        ensures *r == self.reference,
//@end
pub open spec fn range_in(ts: Seq<Token>, r: Range<usize>) -> bool {
    (r.start < r.end && r.end <= ts.len()) || (!(r.start < r.end) && r.end < ts.len())
}
pub open spec fn text_range_of(ts: Seq<Token>, r: Range<usize>) -> Range<usize> {
    if r.start < r.end { ts[r.start as int].range.start..ts[r.end - 1].range.end } else { ts[r.end as int].range.end..ts[r.end as int].range.end }
}
pub trait ToRange {
    spec fn range_spec(&self) -> Range<usize>;
    fn to_range(&self) -> (r: Range<usize>)
        ensures r == self.range_spec();
}
pub trait ToTextRange {
    spec fn node_range(&self) -> Range<usize>;
    fn to_text_range(&self, tokens: &[Token]) -> (r: Range<usize>)
        requires range_in(tokens@, self.node_range()),
        ensures r == text_range_of(tokens@, self.node_range());
}
//@extract spl_frontend/src/ast.rs :: impl ToRange for AstInfo
//@ open
    open spec fn range_spec(&self) -> Range<usize> { self.range }
//@end
//@extract spl_frontend/src/ast.rs :: impl ToTextRange for AstInfo
//@ rewrite range_is_empty
//@ open
    open spec fn node_range(&self) -> Range<usize> { self.range }
//@end
//@extract spl_frontend/src/ast.rs :: derive ToTextRange :: struct CallStatement
//@ open
    open spec fn node_range(&self) -> Range<usize> { self.info.range }
//@end
//~assume &tokens[offset..] is the suffix of the slice from `offset` (RangeFrom indexing; panics iff offset > len)
#[verifier::external_body]
pub fn slice_from<'a>(tokens: &'a [Token], offset: usize) -> (r: &'a [Token])
    requires offset <= tokens@.len(),
    ensures r@ == tokens@.subrange(offset as int, tokens@.len() as int),
{ &tokens[offset..] }
/// the call statement (with the absolute position of the Reference it is relative to) whose text contains the cursor:
/// statements are searched in source order, branches before else-branches
pub open spec fn contains_cursor(c: CallStatement, index: usize, offset: usize, ts: Seq<Token>) -> bool {
    let r = text_range_of(ts.subrange(offset as int, ts.len() as int), c.info.range);
    r.start <= index < r.end
}
pub open spec fn call_at(s: Statement, index: usize, offset: usize, ts: Seq<Token>) -> Option<(CallStatement, usize)>
    decreases s, 0nat
{
    match s {
        Statement::Block(b) => call_in(b.statements, index, offset, ts, 0),
        Statement::If(i) => match (match i.if_branch { Some(x) => call_at(x.reference, index, (offset + x.offset) as usize, ts), None => None }) {
            Some(v) => Some(v),
            None => match i.else_branch { Some(x) => call_at(x.reference, index, (offset + x.offset) as usize, ts), None => None },
        },
        Statement::While(w) => match w.statement { Some(x) => call_at(x.reference, index, (offset + x.offset) as usize, ts), None => None },
        Statement::Call(c) => if contains_cursor(c, index, offset, ts) { Some((c, offset)) } else { None },
        _ => None,
    }
}
/// first statement from position `from` on that contains such a call
pub open spec fn call_in(v: Vec<Reference<Statement>>, index: usize, offset: usize, ts: Seq<Token>, from: nat) -> Option<(CallStatement, usize)>
    decreases v, v@.len() - from
{
    if from >= v@.len() { None } else {
        match call_at(v@[from as int].reference, index, (offset + v@[from as int].offset) as usize, ts) {
            Some(r) => Some(r),
            None => call_in(v, index, offset, ts, from + 1),
        }
    }
}
/// every call statement below names existing tokens, and the accumulated offsets stay inside the token vector
pub open spec fn calls_ok(s: Statement, offset: usize, ts: Seq<Token>) -> bool
    decreases s, 0nat
{
    match s {
        Statement::Block(b) => forall|i: int| 0 <= i < b.statements@.len() ==> offset + (#[trigger] b.statements@[i]).offset <= usize::MAX && calls_ok(b.statements@[i].reference, (offset + b.statements@[i].offset) as usize, ts),
        Statement::If(i) => (match i.if_branch { Some(x) => offset + x.offset <= usize::MAX && calls_ok(x.reference, (offset + x.offset) as usize, ts), None => true })
            && (match i.else_branch { Some(x) => offset + x.offset <= usize::MAX && calls_ok(x.reference, (offset + x.offset) as usize, ts), None => true }),
        Statement::While(w) => match w.statement { Some(x) => offset + x.offset <= usize::MAX && calls_ok(x.reference, (offset + x.offset) as usize, ts), None => true },
        Statement::Call(c) => offset <= ts.len() && range_in(ts.subrange(offset as int, ts.len() as int), c.info.range),
        _ => true,
    }
}
pub open spec fn same_call(r: Option<(&CallStatement, usize)>, want: Option<(CallStatement, usize)>) -> bool {
    match (r, want) { (Some(a), Some(b)) => *a.0 == b.0 && a.1 == b.1, (None, None) => true, _ => false }
}
//~assume `xs.iter().find_map(f)` returns the first Some result of f over xs in order (std iterator semantics; R8)
#[verifier::external_body]
pub fn find_map_first<'a, F: Fn(&'a Reference<Statement>) -> Option<(&'a CallStatement, usize)>>(items: &'a Vec<Reference<Statement>>, f: F, Ghost(g): Ghost<spec_fn(Reference<Statement>) -> Option<(CallStatement, usize)>>) -> (r: Option<(&'a CallStatement, usize)>)
    requires
        forall|i: int| 0 <= i < items@.len() ==> call_requires(f, (&#[trigger] items@[i],)),
        forall|i: int, out: Option<(&'a CallStatement, usize)>| 0 <= i < items@.len() && #[trigger] call_ensures(f, (&items@[i],), out) ==> same_call(out, g(items@[i])),
    ensures same_call(r, first_some(items@, g, 0)),
{ items.iter().find_map(f) }
pub open spec fn first_some(items: Seq<Reference<Statement>>, g: spec_fn(Reference<Statement>) -> Option<(CallStatement, usize)>, from: nat) -> Option<(CallStatement, usize)>
    decreases items.len() - from
{
    if from >= items.len() { None } else { match g(items[from as int]) { Some(r) => Some(r), None => first_some(items, g, from + 1) } }
}
//~assume `opt.iter().map(Box::as_ref).find_map(f)`: an Option yields at most one element
pub fn option_find_map<'a, F: Fn(&'a Reference<Statement>) -> Option<(&'a CallStatement, usize)>>(opt: &'a Option<Box<Reference<Statement>>>, f: F) -> (r: Option<(&'a CallStatement, usize)>)
    requires opt is Some ==> call_requires(f, (&*opt->0,)),
    ensures match *opt { Some(b) => call_ensures(f, (&*b,), r), None => r is None },
{ match opt { Some(b) => f(&**b), None => None } }
pub proof fn lemma_first_some(v: Vec<Reference<Statement>>, index: usize, offset: usize, ts: Seq<Token>, g: spec_fn(Reference<Statement>) -> Option<(CallStatement, usize)>, from: nat)
    requires from <= v@.len(), forall|s: Reference<Statement>| #[trigger] g(s) == call_at(s.reference, index, (offset + s.offset) as usize, ts),
    ensures first_some(v@, g, from) == call_in(v, index, offset, ts, from), //# lemma_first_some
    decreases v@.len() - from
{ if from < v@.len() { lemma_first_some(v, index, offset, ts, g, from + 1); } }
//@extract lsp4spl/src/features/signature_help.rs :: fn find_call_stmt_in_stmt
//@ rewrite option_iter_find_map find_map_first or_else_inline slice_from range_contains
//@ ret r
//@ attr
#[verifier::exec_allows_no_decreases_clause]
//@ sig
    requires calls_ok(*stmt, offset, tokens@),
    ensures same_call(r, call_at(*stmt, *index, offset, tokens@)), //# find_call_stmt_in_stmt::the_call_containing_the_cursor
//@ ret r fn get_in_option
//@ attr fn get_in_option
    #[verifier::exec_allows_no_decreases_clause]
//@ sig fn get_in_option
        requires opt is Some ==> offset + opt->0.offset <= usize::MAX && calls_ok(opt->0.reference, (offset + opt->0.offset) as usize, tokens@),
        ensures same_call(r, match *opt { Some(x) => call_at(x.reference, *index, (offset + x.offset) as usize, tokens@), None => None }),
//@ closure |r| nth 0 of 2 : &'a Reference<Statement>
 -> (out: Option<(&'a CallStatement, usize)>)
                requires offset + r.offset <= usize::MAX && calls_ok(r.reference, (offset + r.offset) as usize, tokens@),
                ensures same_call(out, call_at(r.reference, *index, (offset + r.offset) as usize, tokens@)),
//@ closure |r| nth 1 of 2 : &'a Reference<Statement>
 -> (out: Option<(&'a CallStatement, usize)>)
                requires offset + r.offset <= usize::MAX && calls_ok(r.reference, (offset + r.offset) as usize, tokens@),
                ensures same_call(out, call_at(r.reference, *index, (offset + r.offset) as usize, tokens@)),
//@ after_closure |r| nth 1 of 2
, Ghost(|s: Reference<Statement>| call_at(s.reference, *index, (offset + s.offset) as usize, tokens@))
//@ before "find_map_first(&b.statements"
{ let r_ = 
//@ before ",\n        If(i)"
; proof { lemma_first_some(b.statements, *index, offset, tokens@, |s: Reference<Statement>| call_at(s.reference, *index, (offset + s.offset) as usize, tokens@), 0); } r_ }
//@end

/// "the call statement enclosing the cursor" at procedure level: the first statement of the procedure, in source order, that contains one
//@extract lsp4spl/src/features/signature_help.rs :: fn find_call_stmt
//@ rewrite find_map_first
//@ ret r
//@ sig
    requires forall|i: int| 0 <= i < pd.statements@.len() ==> offset + (#[trigger] pd.statements@[i]).offset <= usize::MAX && calls_ok(pd.statements@[i].reference, (offset + pd.statements@[i].offset) as usize, tokens@),
    ensures same_call(r, call_in(pd.statements, *index, offset, tokens@, 0)), //# find_call_stmt::first_statement_of_the_procedure_with_a_call_around_the_cursor
//@ closure |r| : &'a Reference<Statement>
 -> (out: Option<(&'a CallStatement, usize)>)
                requires offset + r.offset <= usize::MAX && calls_ok(r.reference, (offset + r.offset) as usize, tokens@),
                ensures same_call(out, call_at(r.reference, *index, (offset + r.offset) as usize, tokens@)),
//@ after_closure |r|
, Ghost(|s: Reference<Statement>| call_at(s.reference, *index, (offset + s.offset) as usize, tokens@))
//@ before "find_map_first(&pd.statements"
let r_ = 
//@ at_end
; proof { lemma_first_some(pd.statements, *index, offset, tokens@, |s: Reference<Statement>| call_at(s.reference, *index, (offset + s.offset) as usize, tokens@), 0); } r_
//@end

//~not_decided the rendered texts (Display / format!); the handler-level closures are under contract in unit `sighelp`, hover in unit `hover`
pub proof fn witness_signature() {
    let s: Seq<Token> = Seq::empty();
    assert(sorted_by_start(s));
}
}
fn main() {}
