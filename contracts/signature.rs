// unit `signature` — C14: active parameter = number of commas between the opening parenthesis and the cursor
use vstd::prelude::*;
use std::ops::Range;
verus! {
//@include shims.rs
//@include types_error.rs
//@include types_tokens.rs

// R7 stand-in for lsp_types::ParameterInformation: get_active_param only asks whether the slice is empty.
pub struct ParameterInformation { pub opaque: u8 }

// ---------- spec vocabulary: the sentence of C14
/// number of `,` tokens among the first `upto` tokens that start before the cursor
pub open spec fn count_commas_before(tokens: Seq<Token>, index: int, upto: int) -> nat
    decreases upto
{
    if upto <= 0 { 0 } else {
        count_commas_before(tokens, index, upto - 1) +
        (if tokens[upto-1].range.start < index && tokens[upto-1].token_type is Comma { 1nat } else { 0nat })
    }
}
pub open spec fn sorted_by_start(tokens: Seq<Token>) -> bool {
    forall|i: int, j: int| 0 <= i < j < tokens.len() ==> tokens[i].range.start <= tokens[j].range.start
}
pub proof fn lemma_count_stable(tokens: Seq<Token>, index: int, from: int, to: int)
    requires 0 <= from <= to <= tokens.len(), forall|k: int| from <= k < to ==> tokens[k].range.start >= index,
    ensures count_commas_before(tokens, index, to) == count_commas_before(tokens, index, from), //# lemma_count_stable
    decreases to - from
{
    if from < to { lemma_count_stable(tokens, index, from, to - 1); }
}

//~assume the token slice handed to get_active_param is ordered by start offset (tiling of C06; lexer out of reach) and has fewer than u32::MAX tokens
//~not_decided which call statement is found (find_call_stmt_in_stmt: closures/find_map), the label and parameter list (Display/format!), hover (async handler)
//@extract lsp4spl/src/features/signature_help.rs :: fn get_active_param
//@ ret r
//@ sig
    requires
        sorted_by_start(tokens@),
        tokens@.len() < u32::MAX,
    ensures
        params@.len() == 0 ==> r is None, //# get_active_param::none_without_parameters
        params@.len() > 0 ==> r is Some && r->0 as nat == count_commas_before(tokens@, *index as int, tokens@.len() as int), //# get_active_param::commas_before_cursor
//@ before "tokens {"
it: 
//@ loop 0
            invariant_except_break
                param_index as nat == count_commas_before(tokens@, *index as int, it.index@ as int),
            invariant
                sorted_by_start(tokens@),
                tokens@.len() < u32::MAX,
                it.seq().len() == tokens@.len(),
                forall|k: int| 0 <= k < tokens@.len() ==> *it.seq()[k] == tokens@[k],
                0 <= it.index@ <= tokens@.len(),
                param_index <= it.index@,
            ensures
                param_index as nat == count_commas_before(tokens@, *index as int, tokens@.len() as int),
//@ after "for token in tokens {"
            assert(*token == tokens@[it.index@ as int]);
//@ before "break;"
                proof { lemma_count_stable(tokens@, *index as int, it.index@ as int, tokens@.len() as int); }
//@end

pub proof fn witness_signature() {
    let s: Seq<Token> = Seq::empty();
    assert(sorted_by_start(s));
}
}
fn main() {}
