// ---- ast.rs types (verbatim, derives dropped; derived impls are expanded separately, R5)
//@extract spl_frontend/src/ast.rs :: struct AstInfo
//@ rewrite drop_derive
//@end
//@extract spl_frontend/src/ast.rs :: struct Reference
//@ rewrite drop_derive
//@end
//@extract spl_frontend/src/ast.rs :: struct IntLiteral
//@ rewrite drop_derive
//@end
//@extract spl_frontend/src/ast.rs :: struct Identifier
//@ rewrite drop_derive
//@end
//@extract spl_frontend/src/ast.rs :: struct ArrayAccess
//@ rewrite drop_derive
//@end
//@extract spl_frontend/src/ast.rs :: enum Variable
//@ rewrite drop_derive
//@end
//@extract spl_frontend/src/ast.rs :: enum Operator
//@ rewrite drop_derive
//@end
//@extract spl_frontend/src/ast.rs :: struct BinaryExpression
//@ rewrite drop_derive
//@end
//@extract spl_frontend/src/ast.rs :: struct BracketedExpression
//@ rewrite drop_derive
//@end
//@extract spl_frontend/src/ast.rs :: struct UnaryExpression
//@ rewrite drop_derive
//@end
//@extract spl_frontend/src/ast.rs :: enum Expression
//@ rewrite drop_derive
//@end
//@extract spl_frontend/src/ast.rs :: struct TypeDeclaration
//@ rewrite drop_derive
//@end
//@extract spl_frontend/src/ast.rs :: enum TypeExpression
//@ rewrite drop_derive
//@end
//@extract spl_frontend/src/ast.rs :: enum VariableDeclaration
//@ rewrite drop_derive
//@end
//@extract spl_frontend/src/ast.rs :: enum ParameterDeclaration
//@ rewrite drop_derive
//@end
//@extract spl_frontend/src/ast.rs :: struct CallStatement
//@ rewrite drop_derive
//@end
//@extract spl_frontend/src/ast.rs :: struct Assignment
//@ rewrite drop_derive
//@end
//@extract spl_frontend/src/ast.rs :: struct IfStatement
//@ rewrite drop_derive
//@end
//@extract spl_frontend/src/ast.rs :: struct WhileStatement
//@ rewrite drop_derive
//@end
//@extract spl_frontend/src/ast.rs :: struct BlockStatement
//@ rewrite drop_derive
//@end
//@extract spl_frontend/src/ast.rs :: enum Statement
//@ rewrite drop_derive
//@end
//@extract spl_frontend/src/ast.rs :: struct ProcedureDeclaration
//@ rewrite drop_derive
//@end
//@extract spl_frontend/src/ast.rs :: enum GlobalDeclaration
//@ rewrite drop_derive
//@end
//@extract spl_frontend/src/ast.rs :: struct Program
//@ rewrite drop_derive
//@end
