// unit `misc` — C02 only: panic-freedom (and a minimal functional contract) of small helpers on the request path
use vstd::prelude::*;
use std::ops::Range;
verus! {
//@include shims.rs
//@include types_error.rs
//@include types_tokens.rs
//@include types_ast.rs

//@extract lsp4spl/src/features/completion.rs :: fn correct_index
//@ ret r
//@ sig
    ensures r == (if index > 0 { index - 1 } else { 0 }), //# correct_index::one_back_saturating
//@end

//@extract spl_frontend/src/tokens.rs :: trait TokenList
//@ ret r fn token_before
//@ sig fn token_before
        ensures
            r is None <==> (self.view_tokens().len() == 0 || self.view_tokens()[0].range.start > index), //# token_before::none_iff_nothing_before
//@ open
    spec fn view_tokens(&self) -> Seq<Token>;
//@end
//@extract spl_frontend/src/tokens.rs :: impl TokenList for &[Token]
//@ open
    open spec fn view_tokens(&self) -> Seq<Token> { self@ }
//@ before "self.iter() {"
it: 
//@ loop 0 fn token_before
                invariant
                    it.seq().len() == self@.len(),
                    forall|k: int| 0 <= k < self@.len() ==> *it.seq()[k] == self@[k],
//@ after "for token in self.iter() {"
                assert(*token == self@[it.index@ as int]);
//@end

pub open spec fn stmt_info(s: Statement) -> AstInfo {
    match s {
        Statement::Empty(i) => i, Statement::If(i) => i.info, Statement::Call(c) => c.info, Statement::While(w) => w.info,
        Statement::Block(b) => b.info, Statement::Assignment(a) => a.info, Statement::Error(i) => i,
    }
}
//@extract spl_frontend/src/ast.rs :: impl Statement :: fn info
//@ ret r
//@ sig
        ensures
            *r == stmt_info(*self), //# Statement::info::own_info
//@end

//~not_decided C02 as a whole: process liveness, one response per request, termination of analysis, panic sites inside nom closures (parser.rs "Parser cannot fail"), async handlers (goto.rs slicing with table ranges, formatting.rs:340) — all outside both engines
pub proof fn witness_misc() { assert(true); }
}
fn main() {}
