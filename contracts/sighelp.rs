// unit `sighelp` — C14 (second sentence): what signature help answers for the call statement around the cursor —
// the third closure of the `signature_help` handler (`|(call_stmt, offset)| { .. }`), lifted (R6)
use vstd::prelude::*;
use std::ops::Range;
use std::collections::HashMap;
use std::fmt::Debug;
verus! {
//@include shims.rs
//@include types_error.rs
//@include types_tokens.rs
//@include types_ast.rs
//@include inc_shiftable.rs
//@include inc_positions.rs

//@include inc_cursor_types.rs

// R7 stand-ins for lsp_types::{SignatureHelp, SignatureInformation} (same public fields), ParameterInformation and Documentation opaque
pub enum ParameterLabel { Simple(String), LabelOffsets([u32; 2]) }
pub struct ParameterInformation { pub label: ParameterLabel, pub documentation: Option<Documentation> }
#[verifier::external_body]
pub struct Documentation { pub opaque: u8 }
pub struct SignatureInformation { pub label: String, pub documentation: Option<Documentation>, pub parameters: Option<Vec<ParameterInformation>>, pub active_parameter: Option<u32> }
pub struct SignatureHelp { pub signatures: Vec<SignatureInformation>, pub active_signature: Option<u32>, pub active_parameter: Option<u32> }

/// number of `,` tokens among the first `upto` tokens that start before the cursor (the same definition as in unit `signature`)
pub open spec fn count_commas_before(tokens: Seq<Token>, index: int, upto: int) -> nat
    decreases upto
{
    if upto <= 0 { 0 } else {
        count_commas_before(tokens, index, upto - 1) +
        (if tokens[upto-1].range.start < index && tokens[upto-1].token_type is Comma { 1nat } else { 0nat })
    }
}
pub open spec fn sorted_by_start(tokens: Seq<Token>) -> bool {
    forall|i: int, j: int| 0 <= i < j < tokens.len() ==> tokens[i].range.start <= tokens[j].range.start
}
//~assume `get_active_param` satisfies its contract (proved in unit `signature`, used here by contract only)
//@extract lsp4spl/src/features/signature_help.rs :: fn get_active_param
//@ ret r
//@ sig
    requires sorted_by_start(tokens@), tokens@.len() < u32::MAX,
    ensures
        params@.len() == 0 ==> r is None,
        params@.len() > 0 ==> r is Some && r->0 as nat == count_commas_before(tokens@, *index as int, tokens@.len() as int),
//@ assume_body fn get_active_param
//@end
/// what is rendered for a parameter list / a label / a doc comment is named, not modelled
pub uninterp spec fn label_of(e: ProcedureEntry) -> Seq<char>;
pub uninterp spec fn markup_of(d: Option<String>) -> Option<Documentation>;
/// what `Display` renders for a parameter entry is named, not modelled
pub uninterp spec fn param_text_of(v: VariableEntry) -> Seq<char>;
#[verifier::external_body]
pub fn param_text(v: &VariableEntry) -> (r: String)
    ensures r@ == param_text_of(*v),
{ unimplemented!() }
//~assume `xs.iter().map(f).collect()` applies f to every element in order (std iterator semantics; R8)
#[verifier::external_body]
pub fn iter_map_collect<F: Fn(&VariableEntry) -> ParameterInformation>(xs: &Vec<VariableEntry>, f: F) -> (r: Vec<ParameterInformation>)
    requires forall|i: int| 0 <= i < xs@.len() ==> call_requires(f, (&#[trigger] xs@[i],)),
    ensures r@.len() == xs@.len(), forall|i: int| 0 <= i < xs@.len() ==> call_ensures(f, (&xs@[i],), #[trigger] r@[i]),
{ xs.iter().map(f).collect() }
/// "one entry per parameter": entry i carries the rendered text of declared parameter i and no documentation
pub open spec fn param_infos_ok(r: Seq<ParameterInformation>, e: ProcedureEntry) -> bool {
    r.len() == e.parameters@.len() && forall|i: int| 0 <= i < r.len() ==> param_info_ok(#[trigger] r[i], e.parameters@[i])
}
pub open spec fn param_info_ok(p: ParameterInformation, v: VariableEntry) -> bool {
    p.documentation is None && match p.label { ParameterLabel::Simple(t) => t@ == param_text_of(v), ParameterLabel::LabelOffsets(_) => false }
}
//@extract lsp4spl/src/features/signature_help.rs :: fn get_param_info
//@ rewrite params_iter_map_collect param_to_string
//@ ret r
//@ sig
    ensures param_infos_ok(r@, *proc_entry), //# get_param_info::one_entry_per_declared_parameter_in_order
//@ closure |param| : &VariableEntry
 -> (p: ParameterInformation)
            ensures param_info_ok(p, *param)
//@end
#[verifier::external_body]
pub fn entry_label(e: &ProcedureEntry) -> (r: String)
    ensures r@ == label_of(*e),
{ unimplemented!() }
#[verifier::external_body]
pub fn doc_markup(d: &Option<String>) -> (r: Option<Documentation>)
    ensures r == markup_of(*d),
{ unimplemented!() }
//@extract spl_frontend/src/ast.rs :: derive ToRange :: struct CallStatement
//@ open
    open spec fn range_spec(&self) -> Range<usize> { self.info.range }
//@end

/// the tokens of the call statement: its token range, displaced by the position of the Reference it is relative to
pub open spec fn call_tokens(doc: AnalyzedSource, c: CallStatement, offset: usize) -> Seq<Token> {
    doc.tokens@.subrange(c.info.range.start + offset, c.info.range.end + offset)
}
/// "shows the callee's declared signature with one entry per parameter and marks as active the parameter whose index is the number of commas
/// between the opening parenthesis and the cursor" (the commas of the call statement's own tokens that start before the cursor)
pub open spec fn help_ok(h: SignatureHelp, e: ProcedureEntry, doc: AnalyzedSource, c: CallStatement, offset: usize, index: usize) -> bool {
    &&& h.signatures@.len() == 1 && h.active_signature == Some(0u32)
    &&& h.signatures@[0].label@ == label_of(e) && h.signatures@[0].documentation == markup_of(e.doc)
    &&& h.signatures@[0].parameters is Some && param_infos_ok(h.signatures@[0].parameters->0@, e)
    &&& h.active_parameter == h.signatures@[0].active_parameter
    &&& (e.parameters@.len() == 0 ==> h.active_parameter is None)
    &&& (e.parameters@.len() > 0 ==> h.active_parameter is Some && h.active_parameter->0 as nat == count_commas_before(call_tokens(doc, c, offset), index as int, call_tokens(doc, c, offset).len() as int))
}
pub open spec fn callee(doc: AnalyzedSource, c: CallStatement) -> Option<ProcedureEntry> {
    if gmap(doc.table).contains_key(c.name.value@) { match gmap(doc.table)[c.name.value@] { GlobalEntry::Procedure(p) => Some(p), GlobalEntry::Type(_) => None } } else { None }
}
//@extract lsp4spl/src/features/signature_help.rs :: fn signature_help :: closure |(call_stmt, offset)|
//@ rewrite proc_doc_markup proc_entry_label call_tokens_slice
//@ lift pub fn signature_for_call(call_stmt: &CallStatement, offset: usize, cursor: &DocumentCursor) -> (r: Option<SignatureHelp>)
//@ sig
    requires
        call_stmt.info.range.start <= call_stmt.info.range.end, call_stmt.info.range.end + offset <= cursor.doc.tokens@.len(),
        sorted_by_start(cursor.doc.tokens@), cursor.doc.tokens@.len() < u32::MAX,
    ensures
        callee(cursor.doc, *call_stmt) is None ==> r is None, //# signature_help::nothing_unless_the_callee_is_a_procedure
        callee(cursor.doc, *call_stmt) is Some ==> r is Some && help_ok(r->0, callee(cursor.doc, *call_stmt)->0, cursor.doc, *call_stmt, offset, cursor.index), //# signature_help::the_callee_s_signature_with_the_active_parameter_by_commas
//@end

// ---------- which procedure the cursor is in: the first closure of the handler
//@extract spl_frontend/src/ast.rs :: impl<T> AsRef<T> for Reference<T>
//@ ret r fn as_ref
//@ sig fn as_ref
        ensures *r == self.reference,
//@end
//@extract spl_frontend/src/ast.rs :: derive ToTextRange :: struct ProcedureDeclaration
//@ open
    open spec fn node_range(&self) -> Range<usize> { self.info.range }
//@end
//~assume &tokens[offset..] is the suffix of the slice from `offset` (RangeFrom indexing; panics iff offset > len)
#[verifier::external_body]
pub fn slice_from<'a>(tokens: &'a [Token], offset: usize) -> (r: &'a [Token])
    requires offset <= tokens@.len(),
    ensures r@ == tokens@.subrange(offset as int, tokens@.len() as int),
{ &tokens[offset..] }
/// a procedure declaration whose text (first to last token, relative to its Reference offset) contains the cursor
pub open spec fn proc_around(gd: Reference<GlobalDeclaration>, doc: AnalyzedSource, index: usize) -> Option<(ProcedureDeclaration, usize)> {
    match gd.reference {
        GlobalDeclaration::Procedure(pd) => { let r = text_range_of(doc.tokens@.subrange(gd.offset as int, doc.tokens@.len() as int), pd.info.range); if r.start <= index < r.end { Some((pd, gd.offset)) } else { None } },
        _ => None,
    }
}
pub open spec fn decl_in_tokens(gd: Reference<GlobalDeclaration>, doc: AnalyzedSource) -> bool {
    gd.offset <= doc.tokens@.len() && match gd.reference { GlobalDeclaration::Procedure(pd) => range_in(doc.tokens@.subrange(gd.offset as int, doc.tokens@.len() as int), pd.info.range), _ => true }
}
pub open spec fn same_proc(r: Option<(&ProcedureDeclaration, usize)>, want: Option<(ProcedureDeclaration, usize)>) -> bool {
    match want { Some(x) => r is Some && *(r->0).0 == x.0 && (r->0).1 == x.1, None => r is None }
}
//@extract lsp4spl/src/features/signature_help.rs :: fn signature_help :: closure |gd|
//@ rewrite cursor_tokens_from range_contains
//@ lift pub fn procedure_around_cursor<'a>(gd: &'a Reference<GlobalDeclaration>, cursor: &DocumentCursor) -> (r: Option<(&'a ProcedureDeclaration, usize)>)
//@ sig
    requires decl_in_tokens(*gd, cursor.doc),
    ensures same_proc(r, proc_around(*gd, cursor.doc, cursor.index)), //# signature_help::the_procedure_whose_text_contains_the_cursor
//@end
//~assume the tokens are ordered by start offset and fewer than u32::MAX (lexer result; C06), the call statement's token range displaced by its offset lies inside the token vector (parser)
//~not_decided the rendered label, parameter labels and documentation (Display/format!); how the three closures of the handler are chained (`.await.map(..and_then..)`, `find_map`)
pub proof fn witness_sighelp() {
    let s: Seq<Token> = Seq::empty();
    assert(sorted_by_start(s));
}
}
fn main() {}
