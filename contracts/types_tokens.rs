// ---- tokens.rs types (verbatim, derives dropped)
//@extract spl_frontend/src/tokens.rs :: enum IntResult
//@ rewrite drop_derive
//@end
//@extract spl_frontend/src/tokens.rs :: enum TokenType
//@ rewrite drop_derive
//@end
//@extract spl_frontend/src/tokens.rs :: struct Token
//@ rewrite drop_derive
//@end
//@extract spl_frontend/src/tokens.rs :: struct TokenChange
//@ rewrite drop_derive
//@end
