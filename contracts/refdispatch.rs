// unit `refdispatch` — C13: which walk answers a find-references / rename request (scoping), and what the handlers make of its result
use vstd::prelude::*;
use std::ops::Range;
use std::collections::HashMap;
use std::fmt::Debug;
verus! {
//@include shims.rs
//@include types_error.rs
//@include types_tokens.rs
//@include types_ast.rs
//@include inc_positions.rs

//@include inc_cursor.rs

// ---------- the three walks, by contract only (their bodies are under contract in unit `refs`, per procedure / statement / expression)
pub uninterp spec fn procs_named(name: Seq<char>, program: Program) -> Seq<Identifier>;
pub uninterp spec fn types_named(name: Seq<char>, program: Program) -> Seq<Identifier>;
pub uninterp spec fn vars_named(name: Seq<char>, proc_name: Seq<char>, program: Program) -> Seq<Identifier>;
//~assume `find_procs`, `find_types`, `find_vars` are functions of their arguments (named `procs_named`, `types_named`, `vars_named`); what they return per procedure, statement and expression is proved in unit `refs`, their outermost iteration over the global declarations is not decided
//@extract lsp4spl/src/features/references.rs :: fn find_procs
//@ ret r
//@ sig
    ensures r@ == procs_named(name@, *program),
//@ assume_body fn find_procs
//@end
//@extract lsp4spl/src/features/references.rs :: fn find_types
//@ ret r
//@ sig
    ensures r@ == types_named(name@, *program),
//@ assume_body fn find_types
//@end
//@extract lsp4spl/src/features/references.rs :: fn find_vars
//@ ret r
//@ sig
    ensures r@ == vars_named(name@, proc_name@, *program),
//@ assume_body fn find_vars
//@end

/// "the occurrences bound to the same declaration": inside a type declaration an identifier is a type name; inside procedure p it is p itself, or
/// what SPL scoping binds it to — parameters and locals of p before globals; variables are searched in p only
pub open spec fn bound_occurrences(ident: Ident, entry: GlobalEntry, program: Program, global_table: GlobalTable) -> Seq<Identifier> {
    match entry {
        GlobalEntry::Type(_) => types_named(ident.value@, program),
        GlobalEntry::Procedure(p) => if p.name.value@ == ident.value@ { procs_named(ident.value@, program) } else {
            match lookup_spec(LookupTable { global_table: Some(&global_table), local_table: Some(&p.local_table) }, ident.value@) {
                Some(Entry::Type(_)) => types_named(ident.value@, program),
                Some(Entry::Procedure(_)) => procs_named(ident.value@, program),
                Some(Entry::Variable(_)) => vars_named(ident.value@, p.name.value@, program),
                Some(Entry::Parameter(_)) => vars_named(ident.value@, p.name.value@, program),
                None => Seq::empty(),
            }
        },
    }
}
#[verifier::external_body]
pub fn string_eq(a: &String, b: &String) -> (r: bool)
    ensures r == (a@ == b@),
{ a == b }
//@extract lsp4spl/src/features/references.rs :: fn find_referenced_identifiers
//@ rewrite map_entry_from map_or_else_inline map_inline or_else_inline string_eq_fields
//@ ret r
//@ sig
    ensures r@ == bound_occurrences(*ident, *entry, *program, *global_table), //# find_referenced_identifiers::the_walk_for_what_the_name_is_bound_to
//@end

// ---------- the handlers behind their `.await` (R6 `iflet`)
// R7 stand-ins: lsp_types::TextEdit (same public fields), WorkspaceEdit opaque
pub struct TextEdit { pub range: PosRange, pub new_text: String }
#[verifier::external_body]
pub struct WorkspaceEdit { pub opaque: u8 }
/// the workspace edit that changes exactly one document with the given edits
pub uninterp spec fn single_doc_edit(uri: Url, edits: Seq<TextEdit>) -> WorkspaceEdit;
#[verifier::external_body]
pub fn workspace_edit_single(uri: Url, text_edits: Vec<TextEdit>) -> (w: WorkspaceEdit)
    ensures w == single_doc_edit(uri, text_edits@),
{ unimplemented!() }
#[verifier::external_body]
pub fn string_clone(s: &String) -> (r: String)
    ensures r@ == s@,
{ s.clone() }
#[verifier::external_body]
pub fn url_clone(u: &Url) -> (r: Url)
    ensures r == *u,
{ unimplemented!() }
//~assume derived PartialEq of `Ident` is structural: same name and same range (R1)
#[verifier::external_body]
pub fn ident_eq(a: &Ident, b: &Ident) -> (r: bool)
    ensures r == (a.value@ == b.value@ && a.range == b.range),
{ unimplemented!() }
//~assume `v.into_iter().map(f).map(g).collect()` / `.map(f).filter(p).map(g).collect()` apply f, p, g to every element in order (std iterator semantics; R8)
#[verifier::external_body]
pub fn vec_map_map_collect<F: Fn(Identifier) -> Ident, G: Fn(Ident) -> TextEdit>(v: Vec<Identifier>, f: F, g: G) -> (r: Vec<TextEdit>)
    requires
        forall|i: int| 0 <= i < v@.len() ==> call_requires(f, (#[trigger] v@[i],)),
        forall|i: int, m: Ident| 0 <= i < v@.len() && call_ensures(f, (v@[i],), m) ==> call_requires(g, (m,)),
    ensures
        r@.len() == v@.len(),
        forall|i: int| 0 <= i < v@.len() ==> exists|m: Ident| call_ensures(f, (v@[i],), m) && call_ensures(g, (m,), #[trigger] r@[i]),
{ v.into_iter().map(f).map(g).collect() }
pub open spec fn others(occ: Seq<Identifier>, fr: spec_fn(Identifier) -> Range<usize>, keep: spec_fn(Seq<char>, Range<usize>) -> bool, g: spec_fn(Range<usize>) -> Location, n: nat) -> Seq<Location>
    decreases n
{
    if n == 0 || n > occ.len() { Seq::empty() }
    else if keep(occ[n - 1].value@, fr(occ[n - 1])) { others(occ, fr, keep, g, (n - 1) as nat).push(g(fr(occ[n - 1]))) }
    else { others(occ, fr, keep, g, (n - 1) as nat) }
}
#[verifier::external_body]
pub fn vec_map_filter_map_collect<F: Fn(Identifier) -> Ident, P: Fn(&Ident) -> bool, G: Fn(Ident) -> Location>(v: Vec<Identifier>, f: F, p: P, g: G,
        Ghost(fr): Ghost<spec_fn(Identifier) -> Range<usize>>, Ghost(keep): Ghost<spec_fn(Seq<char>, Range<usize>) -> bool>, Ghost(sg): Ghost<spec_fn(Range<usize>) -> Location>) -> (r: Vec<Location>)
    requires
        forall|i: int| 0 <= i < v@.len() ==> call_requires(f, (#[trigger] v@[i],)),
        forall|i: int, m: Ident| 0 <= i < v@.len() && #[trigger] call_ensures(f, (v@[i],), m) ==> m.value@ == v@[i].value@ && m.range == fr(v@[i]),
        forall|m: Ident| #[trigger] call_requires(p, (&m,)) && call_requires(g, (m,)),
        forall|m: Ident, b: bool| #[trigger] call_ensures(p, (&m,), b) ==> b == keep(m.value@, m.range),
        forall|m: Ident, l: Location| #[trigger] call_ensures(g, (m,), l) ==> l == sg(m.range),
    ensures r@ == others(v@, fr, keep, sg, v@.len()),
{ v.into_iter().map(f).filter(p).map(g).collect() }

//@extract lsp4spl/src/features.rs :: impl Ident :: fn from_identifier
//@ rewrite identifier_value_clone
//@ ret r
//@ sig
        ensures r.value@ == identifier.value@ && r.range == range,
//@end
//@extract lsp4spl/src/features.rs :: impl ToRange for Ident
//@ open
    open spec fn range_spec(&self) -> Range<usize> { self.range }
//@end

/// an identifier owns at least its own token (parser; assumed)
pub open spec fn owns_a_token(ts: Seq<Token>, r: Range<usize>) -> bool { r.start < r.end <= ts.len() }
/// the text range of the token that holds an identifier itself: the last token of the identifier's token range (the range may start with the comments
/// in front of it, which are no part of the occurrence — D19)
pub open spec fn name_range(ts: Seq<Token>, r: Range<usize>) -> Range<usize> {
    if r.start < r.end { ts[r.end - 1].range } else { text_range_of(ts, r) }
}
//~assume `AstInfo::slice` returns the node's own tokens (proved in unit `ast`, used here by contract)
//@extract spl_frontend/src/ast.rs :: impl AstInfo :: fn slice
//@ ret r
//@ sig
        requires self.range.start <= self.range.end <= tokens@.len(),
        ensures r@ == tokens@.subrange(self.range.start as int, self.range.end as int),
//@ assume_body fn slice
//@end
//@extract lsp4spl/src/features/references.rs :: fn name_text_range
//@ ret r
//@ sig
    requires owns_a_token(tokens@, identifier.info.range),
    ensures r == name_range(tokens@, identifier.info.range), //# name_text_range::the_identifier_s_own_token
//@end
pub open spec fn lsp_range(r: Range<usize>, text: Seq<char>) -> PosRange { PosRange { start: pos_of(r.start, text), end: pos_of(r.end, text) } }
pub open spec fn occurrences_ok(occ: Seq<Identifier>, ts: Seq<Token>) -> bool { forall|i: int| 0 <= i < occ.len() ==> owns_a_token(ts, (#[trigger] occ[i]).info.range) }

/// "Prepare-rename returns the identifier's range exactly when rename is offered": on an identifier other than `int`
//@extract lsp4spl/src/features/references.rs :: fn prepare_rename :: iflet cursor
//@ rewrite ident_eq_int
//@ lift pub fn prepare_rename_at(cursor: DocumentCursor) -> (r: std::result::Result<Option<PosRange>, Report>)
//@ sig
    requires text_fits(cursor.doc.text@),
    ensures
        r is Ok, //# prepare_rename::never_an_error
        r->Ok_0 == (match cursor_ident(cursor) { Some(id) => if id.value@ == "int"@ { None } else { Some(lsp_range(id.range, cursor.doc.text@)) }, None => None }), //# prepare_rename::the_identifier_s_range_unless_int
//@end

/// "rename returns one edit per occurrence of that binding (declaration included) and nothing else"
pub open spec fn rename_edits_ok(edits: Seq<TextEdit>, occ: Seq<Identifier>, doc: AnalyzedSource, new_name: Seq<char>) -> bool {
    edits.len() == occ.len() && forall|i: int| 0 <= i < occ.len() ==> (#[trigger] edits[i]).range == lsp_range(name_range(doc.tokens@, occ[i].info.range), doc.text@) && edits[i].new_text@ == new_name
}
//@extract lsp4spl/src/features/references.rs :: fn rename :: iflet cursor
//@ rewrite ident_eq_int map_map_collect new_name_clone workspace_edit_single
//@ lift pub fn rename_at(cursor: DocumentCursor, uri: Url, new_name: String) -> (r: std::result::Result<Option<WorkspaceEdit>, Report>)
//@ sig
    requires
        text_fits(cursor.doc.text@),
        cursor.context is Some && cursor_ident(cursor) is Some ==> occurrences_ok(bound_occurrences(cursor_ident(cursor)->0, cursor.context->0, cursor.doc.ast, cursor.doc.table), cursor.doc.tokens@),
    ensures
        r is Ok, //# rename::never_an_error
        (cursor_ident(cursor) is None || cursor.context is None || cursor_ident(cursor)->0.value@ == "int"@) ==> r->Ok_0 is None, //# rename::not_offered_off_identifiers_and_for_int
        (cursor_ident(cursor) is Some && cursor.context is Some && cursor_ident(cursor)->0.value@ != "int"@) ==> r->Ok_0 is Some && exists|edits: Seq<TextEdit>| r->Ok_0->0 == single_doc_edit(uri, edits) && rename_edits_ok(edits, bound_occurrences(cursor_ident(cursor)->0, cursor.context->0, cursor.doc.ast, cursor.doc.table), cursor.doc, new_name@), //# rename::one_edit_per_occurrence_of_the_binding_in_this_document
//@ closure |identifier| : Identifier
 -> (m: Ident)
                        requires owns_a_token(doc.tokens@, identifier.info.range),
                        ensures m.value@ == identifier.value@ && m.range == name_range(doc.tokens@, identifier.info.range)
//@ closure |ident| : Ident
 -> (e: TextEdit)
                        ensures e.range == lsp_range(ident.range, doc.text@) && e.new_text@ == new_name@
//@ before "return Ok(Some(workspace_edit_single"
proof {
                    let occ = bound_occurrences(*ident, entry, doc.ast, doc.table);
                    assert(rename_edits_ok(text_edits@, occ, doc, new_name@));
                }
                
//@end

/// "find-references returns exactly the other occurrences bound to the same declaration": every occurrence except the one under the cursor, in walk order
pub open spec fn other_occurrences(occ: Seq<Identifier>, doc: AnalyzedSource, uri: Url, cursor_id: Ident) -> Seq<Location> {
    others(occ, |id: Identifier| name_range(doc.tokens@, id.info.range), |name: Seq<char>, r: Range<usize>| !(name == cursor_id.value@ && r == cursor_id.range),
        |r: Range<usize>| Location { uri, range: lsp_range(r, doc.text@) }, occ.len())
}
//@extract lsp4spl/src/features/references.rs :: fn find :: iflet cursor
//@ rewrite map_filter_map_collect ident_ne uri_clone
//@ lift pub fn find_at(cursor: DocumentCursor, uri: Url) -> (r: std::result::Result<Option<Vec<Location>>, Report>)
//@ sig
    requires
        text_fits(cursor.doc.text@),
        cursor.context is Some && cursor_ident(cursor) is Some ==> occurrences_ok(bound_occurrences(cursor_ident(cursor)->0, cursor.context->0, cursor.doc.ast, cursor.doc.table), cursor.doc.tokens@),
    ensures
        r is Ok, //# find::never_an_error
        (cursor_ident(cursor) is None || cursor.context is None) ==> r->Ok_0 is None, //# find::nothing_off_identifiers
        (cursor_ident(cursor) is Some && cursor.context is Some) ==> r->Ok_0 is Some && r->Ok_0->0@ == other_occurrences(bound_occurrences(cursor_ident(cursor)->0, cursor.context->0, cursor.doc.ast, cursor.doc.table), cursor.doc, uri, cursor_ident(cursor)->0), //# find::exactly_the_other_occurrences_of_the_binding
//@ closure |identifier| : Identifier
 -> (m: Ident)
                        requires owns_a_token(doc.tokens@, identifier.info.range),
                        ensures m.value@ == identifier.value@ && m.range == name_range(doc.tokens@, identifier.info.range)
//@ closure |i| nth 0 of 2 : &Ident
 -> (b: bool)
                        ensures b == !(i.value@ == ident.value@ && i.range == ident.range)
//@ closure |i| nth 1 of 2 : Ident
 -> (l: Location)
                        ensures l == (Location { uri, range: lsp_range(i.range, doc.text@) })
//@ after_closure |i| nth 1 of 2
, Ghost(|id: Identifier| name_range(doc.tokens@, id.info.range)), Ghost(|name: Seq<char>, r: Range<usize>| !(name == ident.value@ && r == ident.range)), Ghost(|r: Range<usize>| Location { uri, range: lsp_range(r, doc.text@) })
//@end
//~not_decided "applying a rename yields a program with the same diagnostics" and "renaming back restores the text" (relations between runs of the whole front end); the walks are under contract in unit `refs`, the cursor in unit `cursor`
//~assume a procedure has no parameter or local variable of its own name (the handlers decide by name whether the cursor is on the enclosing procedure's own name)
}
fn main() {}
