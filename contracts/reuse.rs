// unit `reuse` — C01 (partial): the predicates on which the incremental parser decides whether an old node may be reused mean what a truthful
// change window says (consumer side of the window; the producer side is unit `window`, C07)
use vstd::prelude::*;
use std::ops::Range;
verus! {
//@include shims.rs
//@include types_error.rs
//@include types_tokens.rs

//@include inc_window.rs

// ---------- code under contract
//@extract spl_frontend/src/tokens.rs :: impl TokenChange :: fn deletes
//@ ret b
//@ sig
        ensures
            b ==> forall|i: int| other_range.start <= i < other_range.end ==> !survives(self, i), //# deletes::nothing_survives
            other_range.start < other_range.end && (forall|i: int| other_range.start <= i < other_range.end ==> !survives(self, i)) ==> b, //# deletes::a_fully_deleted_node_is_reported
//@ before "this_range.start <= other_range.start"
proof {
            if other_range.start < other_range.end && (forall|i: int| other_range.start <= i < other_range.end ==> !survives(self, i)) {
                assert(!survives(self, other_range.start as int));
                assert(!survives(self, other_range.end - 1));
            }
        }
        
//@end

//@extract spl_frontend/src/tokens.rs :: impl TokenChange :: fn overlaps
//@ ret b
//@ rewrite range_is_empty range_contains usize_max usize_min
//@ sig
        requires wf_change(self),
        ensures
            !b ==> forall|i: int| other_range.start <= i < other_range.end ==> survives(self, i), //# overlaps::untouched_tokens_survive
            !b && self.deletion_range.start == self.deletion_range.end ==> !(other_range.start < self.deletion_range.start < other_range.end), //# overlaps::no_insertion_inside
//@end

//@extract spl_frontend/src/tokens.rs :: impl TokenChange :: fn out_of_range
//@ ret b
//@ rewrite range_len
//@ sig
        requires wf_change(self),
        ensures
            b == (position >= self.deletion_range.start + self.insertion_len), //# out_of_range::first_unchanged_token
//@end

//@extract spl_frontend/src/tokens.rs :: impl TokenChange :: fn new_token_pos
//@ ret p
//@ rewrite range_len
//@ sig
        requires wf_change(self), old_token_pos + self.insertion_len <= usize::MAX,
        ensures
            p == new_pos(self, old_token_pos as int), //# new_token_pos::image_of_survivor
//@end

//@extract spl_frontend/src/parser/utility.rs :: fn affected :: fn is_partially_consumed
//@ ret b
//@ sig
        requires wf_change(token_change), parser_start + token_change.insertion_len <= usize::MAX,
        ensures
            !b ==> (location_offset < token_change.deletion_range.start + token_change.insertion_len || location_offset <= new_pos(token_change, parser_start as int)), //# is_partially_consumed::start_not_behind_cursor
//@end

//@extract spl_frontend/src/parser/utility.rs :: fn affected :: fn is_insertion_here
//@ ret b
//@ rewrite range_contains
//@ sig
        requires wf_change(token_change),
        ensures
            b == (token_change.deletion_range.start <= location_offset < token_change.deletion_range.start + token_change.insertion_len), //# is_insertion_here::inside_inserted_tokens
//@end

/// "its tokens and one token of look-ahead are unchanged" (lemma `reuse_aligned` below): the range `affected` tests against the window is the node's own tokens plus the next one
//@extract spl_frontend/src/parser/utility.rs :: fn affected :: letexpr affected_range
//@ lift pub fn affected_range_of(this_range: &Range<usize>) -> (r: Range<usize>)
//@ sig
    requires this_range.end < usize::MAX,
    ensures r.start == this_range.start && r.end == this_range.end + 1, //# affected::the_node_s_tokens_and_one_token_of_look_ahead
//@end

// ---------- lemmas over the contracts: what reuse under a truthful window guarantees
/// survivors keep their relative order
pub proof fn survivors_ordered(tc: &TokenChange, i: int, j: int)
    requires wf_change(tc), 0 <= i < j, survives(tc, i), survives(tc, j),
    ensures new_pos(tc, i) < new_pos(tc, j), //# survivors_ordered
{ }

/// an inserted position is the image of no survivor
pub proof fn insertion_is_not_image(tc: &TokenChange, l: int, i: int)
    requires wf_change(tc), 0 <= i, survives(tc, i),
        tc.deletion_range.start <= l < tc.deletion_range.start + tc.insertion_len,
    ensures new_pos(tc, i) != l, //# insertion_is_not_image
{ }

/// reuse of an aligned node under a truthful window: its tokens and one look-ahead token are unchanged
pub proof fn reuse_aligned<T>(old: Seq<T>, new: Seq<T>, tc: &TokenChange, a: int, b: int, l: int, k: int)
    requires wf_change(tc), truthful(old, new, tc), 0 <= a <= b, b < old.len(),
        forall|i: int| a <= i < b + 1 ==> survives(tc, i),
        tc.deletion_range.start == tc.deletion_range.end ==> !(a < tc.deletion_range.start < b + 1),
        l == new_pos(tc, a), 0 <= k <= b - a,
    ensures new[l + k] == old[a + k], //# reuse_aligned
{
    assert(survives(tc, a));
    assert(survives(tc, a + k));
    if a + k < tc.deletion_range.start {
    } else {
        assert(a + k >= tc.deletion_range.end);
        if a < tc.deletion_range.start {
            if tc.deletion_range.start < tc.deletion_range.end {
                assert(!survives(tc, tc.deletion_range.start as int));
            }
        }
    }
}


//~assume the window handed to the parser is truthful for the token sequences (unit `window` / `relex`: proved for `lexer::update` up to its opaque re-lexing) and well-formed
//~not_decided `affected()` itself (generic nom closure: `invalid`, the `overlaps` test, cloning and advancing), `many` / `handle_insertions` / `parse_list`, the Reference stack of TokenStream, the retry in `expect`, table and semantic re-analysis — hence "incremental = from scratch" as a whole; divergences of the unchanged tree are known (property text: 17 % of random edits) and are outside this unit
pub proof fn witness_reuse() {
    let tc = TokenChange { deletion_range: 2usize..5usize, insertion_len: 4 };
    assert(wf_change(&tc));
    assert(survives(&tc, 1) && !survives(&tc, 3) && new_pos(&tc, 6) == 7);
}
}
fn main() {}
