// unit `fold` — C17: per procedure, the fold starts on the line of the first non-comment token and ends on the line of
// the last token; start <= end
use vstd::prelude::*;
use std::ops::Range;
verus! {
//@include shims.rs
//@include types_error.rs
//@include types_tokens.rs
//@include types_ast.rs
//@include inc_shiftable.rs
//@include inc_positions.rs

//~assume Range<usize>::clone returns an equal range (assume_specification through vstd's `cloned`)
pub assume_specification<Idx: Clone> [<Range<Idx> as Clone>::clone] (r: &Range<Idx>) -> (c: Range<Idx>)
    ensures cloned(r.start, c.start), cloned(r.end, c.end);

pub open spec fn tokens_tile(ts: Seq<Token>, n: int) -> bool {
    &&& forall|i: int| 0 <= i < ts.len() ==> (#[trigger] ts[i]).range.start <= ts[i].range.end <= n
    &&& forall|i: int, j: int| 0 <= i < j < ts.len() ==> (#[trigger] ts[i]).range.end <= (#[trigger] ts[j]).range.start
}
/// token ranges lie on character boundaries (C06, assumed: the lexer is out of reach)
pub open spec fn tokens_on_boundaries(ts: Seq<Token>, s: Seq<char>) -> bool {
    forall|i: int| 0 <= i < ts.len() ==> is_boundary(s, (#[trigger] ts[i]).range.start as int) && is_boundary(s, ts[i].range.end as int)
}
/// index of the first non-comment token in ts, or ts.len()  ("after any doc comments")
pub open spec fn first_code(ts: Seq<Token>) -> int
    decreases ts.len()
{
    if ts.len() == 0 { 0 } else if ts[0].token_type is Comment { 1 + first_code(ts.subrange(1, ts.len() as int)) } else { 0 }
}

// R7 stand-ins for lsp_types::{FoldingRange, FoldingRangeKind} (same public fields) and the document
pub enum FoldingRangeKind { Comment, Imports, Region }
pub struct FoldingRange { pub start_line: u32, pub start_character: Option<u32>, pub end_line: u32, pub end_character: Option<u32>, pub kind: Option<FoldingRangeKind>, pub collapsed_text: Option<String> }
impl Default for FoldingRange {
    #[verifier::external_body]
    fn default() -> (r: Self) { unimplemented!() }
}
pub struct GlobalTable { pub opaque: u8 }
//@extract spl_frontend/src/lib.rs :: struct AnalyzedSource
//@ rewrite drop_derive
//@end

pub trait ToRange {
    spec fn range_spec(&self) -> Range<usize>;
    fn to_range(&self) -> (r: Range<usize>)
        ensures r == self.range_spec();
}
//@extract spl_frontend/src/ast.rs :: impl ToRange for AstInfo
//@ open
    open spec fn range_spec(&self) -> Range<usize> { self.range }
//@end
//@extract spl_frontend/src/ast.rs :: derive ToRange :: struct ProcedureDeclaration
//@ open
    open spec fn range_spec(&self) -> Range<usize> { self.info.range }
//@end

//@extract lsp4spl/src/features/fold.rs :: fn skip_leading_comments
//@ ret r
//@ sig
    ensures
        r@.len() <= tokens@.len(),
        r@ == tokens@.subrange(tokens@.len() - r@.len(), tokens@.len() as int), //# skip_leading_comments::suffix
        forall|i: int| 0 <= i < tokens@.len() - r@.len() ==> (#[trigger] tokens@[i]).token_type is Comment, //# skip_leading_comments::only_comments_skipped
        r@.len() > 0 ==> !(r@[0].token_type is Comment), //# skip_leading_comments::stops_at_first_code_token
        tokens@.len() - r@.len() == first_code(tokens@), //# skip_leading_comments::first_code
    decreases tokens@.len(),
//@ before "skip_leading_comments(rest)"
{ let r = 
//@ after "skip_leading_comments(rest)"
;
        proof {
            assert(rest@ == tokens@.subrange(1, tokens@.len() as int));
            assert forall|i: int| 0 <= i < tokens@.len() - r@.len() implies (#[trigger] tokens@[i]).token_type is Comment by {
                if i > 0 { assert(tokens@[i] == rest@[i - 1]); }
            }
        }
        r }
//@end

//~assume the closure `|(p, offset)|` of `fold` is applied to every procedure declaration in source order (filter_map().map().collect(); R6): "exactly one range per procedure, in source order" is not decided
//~assume every procedure's token range (shifted by its Reference offset) lies inside the token vector (established by the nom parser)
//~not_decided one folding range per procedure, in source order, non-overlapping (iterator chain around the closure and the parser's ranges); end line when the last token is a comment
/// starts on the line of the first non-comment token of the procedure, ends on the line of the end of its last token
pub open spec fn fold_lines_ok(p: ProcedureDeclaration, offset: usize, doc: AnalyzedSource, fr: FoldingRange) -> bool {
    let lo = p.info.range.start + offset; let hi = p.info.range.end + offset;
    let k = lo + first_code(doc.tokens@.subrange(lo, hi));
    k < hi ==> fr.start_line == pos_of(doc.tokens@[k].range.start, doc.text@).line
            && fr.end_line == pos_of(doc.tokens@[hi - 1].range.end, doc.text@).line
}
//@extract lsp4spl/src/features/fold.rs :: fn fold :: closure |(p, offset)|
//@ lift pub fn fold_closure(p: &ProcedureDeclaration, offset: usize, doc: &AnalyzedSource) -> (fr: FoldingRange)
//@ sig
    requires
        p.info.range.start <= p.info.range.end, p.info.range.end + offset <= doc.tokens@.len(), p.info.range.end + offset <= usize::MAX,
        tokens_tile(doc.tokens@, byte_off(doc.text@, doc.text@.len() as int)), tokens_on_boundaries(doc.tokens@, doc.text@), text_fits(doc.text@),
    ensures
        fr.start_line <= fr.end_line, //# fold::start_not_after_end
        fold_lines_ok(*p, offset, *doc, fr), //# fold::first_code_token_to_last_token
        fr.kind == Some(FoldingRangeKind::Region),
//@ before "let range = as_pos_range(&text_range, &doc.text);"
proof {
                    assert(is_char_at(doc.text@, 0, 0));
                    if text_range.start <= text_range.end && is_boundary(doc.text@, text_range.start as int) && is_boundary(doc.text@, text_range.end as int) {
                        lemma_pos_of_monotone(doc.text@, text_range.start, text_range.end);
                    }
                }
                
//@end

pub proof fn witness_fold() {
    let ts: Seq<Token> = Seq::empty();
    assert(tokens_tile(ts, 0));
    assert(first_code(ts) == 0);
}
}
fn main() {}
