// unit `fold` — C17: per procedure, the fold starts on the line of the first non-comment token and ends on the line of
// the last token; start <= end
use vstd::prelude::*;
use std::ops::Range;
use std::ops::Deref;
verus! {
//@include shims.rs
//@include types_error.rs
//@include types_tokens.rs
//@include types_ast.rs
//@include inc_shiftable.rs
//@include inc_positions.rs

//~assume Range<usize>::clone returns an equal range (assume_specification through vstd's `cloned`)
pub assume_specification<Idx: Clone> [<Range<Idx> as Clone>::clone] (r: &Range<Idx>) -> (c: Range<Idx>)
    ensures cloned(r.start, c.start), cloned(r.end, c.end);

pub open spec fn tokens_tile(ts: Seq<Token>, n: int) -> bool {
    &&& forall|i: int| 0 <= i < ts.len() ==> (#[trigger] ts[i]).range.start <= ts[i].range.end <= n
    &&& forall|i: int, j: int| 0 <= i < j < ts.len() ==> (#[trigger] ts[i]).range.end <= (#[trigger] ts[j]).range.start
}
/// token ranges lie on character boundaries (C06, assumed: the lexer is out of reach)
pub open spec fn tokens_on_boundaries(ts: Seq<Token>, s: Seq<char>) -> bool {
    forall|i: int| 0 <= i < ts.len() ==> is_boundary(s, (#[trigger] ts[i]).range.start as int) && is_boundary(s, ts[i].range.end as int)
}
/// index of the first non-comment token in ts, or ts.len()  ("after any doc comments")
pub open spec fn first_code(ts: Seq<Token>) -> int
    decreases ts.len()
{
    if ts.len() == 0 { 0 } else if ts[0].token_type is Comment { 1 + first_code(ts.subrange(1, ts.len() as int)) } else { 0 }
}

// R7 stand-ins for lsp_types::{FoldingRange, FoldingRangeKind} (same public fields) and the document
pub enum FoldingRangeKind { Comment, Imports, Region }
pub struct FoldingRange { pub start_line: u32, pub start_character: Option<u32>, pub end_line: u32, pub end_character: Option<u32>, pub kind: Option<FoldingRangeKind>, pub collapsed_text: Option<String> }
impl Default for FoldingRange {
    #[verifier::external_body]
    fn default() -> (r: Self) { unimplemented!() }
}
pub struct GlobalTable { pub opaque: u8 }
//@extract spl_frontend/src/lib.rs :: struct AnalyzedSource
//@ rewrite drop_derive
//@end

pub trait ToRange {
    spec fn range_spec(&self) -> Range<usize>;
    fn to_range(&self) -> (r: Range<usize>)
        ensures r == self.range_spec();
}
//@extract spl_frontend/src/ast.rs :: impl ToRange for AstInfo
//@ open
    open spec fn range_spec(&self) -> Range<usize> { self.range }
//@end
//@extract spl_frontend/src/ast.rs :: derive ToRange :: struct ProcedureDeclaration
//@ open
    open spec fn range_spec(&self) -> Range<usize> { self.info.range }
//@end

//@extract lsp4spl/src/features/fold.rs :: fn skip_leading_comments
//@ ret r
//@ sig
    ensures
        r@.len() <= tokens@.len(),
        r@ == tokens@.subrange(tokens@.len() - r@.len(), tokens@.len() as int), //# skip_leading_comments::suffix
        forall|i: int| 0 <= i < tokens@.len() - r@.len() ==> (#[trigger] tokens@[i]).token_type is Comment, //# skip_leading_comments::only_comments_skipped
        r@.len() > 0 ==> !(r@[0].token_type is Comment), //# skip_leading_comments::stops_at_first_code_token
        tokens@.len() - r@.len() == first_code(tokens@), //# skip_leading_comments::first_code
    decreases tokens@.len(),
//@ before "skip_leading_comments(rest)"
{ let r = 
//@ after "skip_leading_comments(rest)"
;
        proof {
            assert(rest@ == tokens@.subrange(1, tokens@.len() as int));
            assert forall|i: int| 0 <= i < tokens@.len() - r@.len() implies (#[trigger] tokens@[i]).token_type is Comment by {
                if i > 0 { assert(tokens@[i] == rest@[i - 1]); }
            }
        }
        r }
//@end

//~assume every procedure's token range (shifted by its Reference offset) lies inside the token vector (established by the nom parser)
//~not_decided that the ranges of different procedures do not overlap (needs the parser's ranges to be disjoint: nom); end line when the last token is a comment
/// starts on the line of the first non-comment token of the procedure, ends on the line of the end of its last token
pub open spec fn fold_lines_ok(p: ProcedureDeclaration, offset: usize, doc: AnalyzedSource, fr: FoldingRange) -> bool {
    let lo = p.info.range.start + offset; let hi = p.info.range.end + offset;
    let k = lo + first_code(doc.tokens@.subrange(lo, hi));
    k < hi ==> fr.start_line == pos_of(doc.tokens@[k].range.start, doc.text@).line
            && fr.end_line == pos_of(doc.tokens@[hi - 1].range.end, doc.text@).line
}

// ---------- the whole answer: exactly one range per procedure declaration, in source order
//@include inc_reference.rs
//@extract spl_frontend/src/ast.rs :: impl<T> AsRef<T> for Reference<T>
//@ ret r fn as_ref
//@ sig fn as_ref
        ensures *r == self.reference,
//@end
pub open spec fn proc_of(gd: Reference<GlobalDeclaration>) -> Option<(ProcedureDeclaration, usize)> {
    match gd.reference { GlobalDeclaration::Procedure(p) => Some((p, gd.offset)), _ => None }
}
/// the procedure declarations among the first n global declarations, in source order, each with its Reference offset
pub open spec fn procs(items: Seq<Reference<GlobalDeclaration>>, n: nat) -> Seq<(ProcedureDeclaration, usize)>
    decreases n
{
    if n == 0 || n > items.len() { Seq::empty() } else { procs(items, (n - 1) as nat) + (match proc_of(items[n - 1]) { Some(x) => seq![x], None => Seq::empty() }) }
}
pub open spec fn same_proc(out: Option<(&ProcedureDeclaration, usize)>, want: Option<(ProcedureDeclaration, usize)>) -> bool {
    match (out, want) { (Some(a), Some(b)) => *a.0 == b.0 && a.1 == b.1, (None, None) => true, _ => false }
}
//~assume `xs.iter().filter_map(f).map(g).collect()` applies g to the Some results of f over xs, in order (std iterator semantics; R8)
#[verifier::external_body]
pub fn filter_map_map_collect<'a, F: Fn(&'a Reference<GlobalDeclaration>) -> Option<(&'a ProcedureDeclaration, usize)>, G: Fn((&'a ProcedureDeclaration, usize)) -> FoldingRange>(items: &'a Vec<Reference<GlobalDeclaration>>, f: F, g: G) -> (r: Vec<FoldingRange>)
    requires
        forall|i: int| 0 <= i < items@.len() ==> call_requires(f, (&#[trigger] items@[i],)),
        forall|i: int, out: Option<(&'a ProcedureDeclaration, usize)>| 0 <= i < items@.len() && #[trigger] call_ensures(f, (&items@[i],), out) ==> same_proc(out, proc_of(items@[i])),
        forall|j: int| 0 <= j < procs(items@, items@.len()).len() ==> call_requires(g, ((&(#[trigger] procs(items@, items@.len())[j]).0, procs(items@, items@.len())[j].1),)),
    ensures
        r@.len() == procs(items@, items@.len()).len(),
        forall|j: int| 0 <= j < r@.len() ==> call_ensures(g, ((&procs(items@, items@.len())[j].0, procs(items@, items@.len())[j].1),), #[trigger] r@[j]),
{ items.iter().filter_map(f).map(g).collect() }
pub open spec fn proc_tokens_ok(p: ProcedureDeclaration, offset: usize, doc: AnalyzedSource) -> bool {
    p.info.range.start <= p.info.range.end && p.info.range.end + offset <= doc.tokens@.len() && p.info.range.end + offset <= usize::MAX
}
//@extract lsp4spl/src/features/fold.rs :: fn fold :: letexpr folding_ranges
//@ rewrite filter_map_map_collect tuple_param_to_let
//@ lift pub fn fold_ranges(doc: &AnalyzedSource) -> (r: Vec<FoldingRange>)
//@ sig
    requires
        tokens_tile(doc.tokens@, byte_off(doc.text@, doc.text@.len() as int)), tokens_on_boundaries(doc.tokens@, doc.text@), text_fits(doc.text@),
        forall|j: int| 0 <= j < procs(doc.ast.global_declarations@, doc.ast.global_declarations@.len()).len() ==>
            proc_tokens_ok((#[trigger] procs(doc.ast.global_declarations@, doc.ast.global_declarations@.len())[j]).0, procs(doc.ast.global_declarations@, doc.ast.global_declarations@.len())[j].1, *doc),
    ensures
        r@.len() == procs(doc.ast.global_declarations@, doc.ast.global_declarations@.len()).len(), //# fold::one_range_per_procedure_declaration
        forall|j: int| 0 <= j < r@.len() ==> fold_lines_ok(procs(doc.ast.global_declarations@, doc.ast.global_declarations@.len())[j].0, procs(doc.ast.global_declarations@, doc.ast.global_declarations@.len())[j].1, *doc, #[trigger] r@[j]), //# fold::in_source_order_each_on_its_procedure
        forall|j: int| 0 <= j < r@.len() ==> (#[trigger] r@[j]).start_line <= r@[j].end_line, //# fold::every_range_well_formed
//@ closure |gd| : &Reference<GlobalDeclaration>
 -> (out: Option<(&ProcedureDeclaration, usize)>)
                ensures same_proc(out, proc_of(*gd)),
//@ closure |p_offset| : (&ProcedureDeclaration, usize)
 -> (fr: FoldingRange)
                requires proc_tokens_ok(*p_offset.0, p_offset.1, *doc),
                ensures fr.start_line <= fr.end_line, fold_lines_ok(*p_offset.0, p_offset.1, *doc, fr),
//@ before "let range = as_pos_range(&text_range, &doc.text);"
proof {
                    assert(is_char_at(doc.text@, 0, 0));
                    if text_range.start <= text_range.end && is_boundary(doc.text@, text_range.start as int) && is_boundary(doc.text@, text_range.end as int) {
                        lemma_pos_of_monotone(doc.text@, text_range.start, text_range.end);
                    }
                }
                
//@end

pub proof fn witness_fold() {
    let ts: Seq<Token> = Seq::empty();
    assert(tokens_tile(ts, 0));
    assert(first_code(ts) == 0);
}
}
fn main() {}
