// shared: position vocabulary.  R7 stand-ins for lsp_types::{Position, Range}; the text-walking functions of document.rs
// (`char_indices` has no vstd specification) are abstract here and checked, bounded, by the Kani unit `positions`.
#[derive(Clone, Copy)]
pub struct Position { pub line: u32, pub character: u32 }
pub struct PosRange { pub start: Position, pub end: Position }
pub type TextRange = std::ops::Range<usize>;

/// the LSP position of byte offset `index` in `text` (UTF-16 columns) — defined by the executable reference in kani/positions
pub uninterp spec fn pos_of(index: usize, text: Seq<char>) -> Position;
/// number of UTF-16 code units of text[a..b]
pub uninterp spec fn utf16_units(a: usize, b: usize, text: Seq<char>) -> nat;
pub open spec fn pos_le(a: Position, b: Position) -> bool { a.line < b.line || (a.line == b.line && a.character <= b.character) }
/// monotonicity of the position function (Kani: as_position_inside_and_monotone, bounded) — used as a precondition
pub open spec fn pos_monotone(text: Seq<char>) -> bool {
    forall|a: usize, b: usize| a <= b ==> pos_le(#[trigger] pos_of(a, text), #[trigger] pos_of(b, text))
}
//~assume document.rs::as_position(i, text) == pos_of(i, text) and document.rs::utf16_len(range, text) == utf16_units(..): abstract in Verus (str::char_indices / encode_utf16 have no vstd spec); checked against the LSP reference by Kani unit `positions`, bounded by text length
//~assume pos_of is monotone in the offset (Kani unit `positions`, harness as_position_inside_and_monotone, bounded; char-boundary offsets)
//@extract lsp4spl/src/document.rs :: fn as_position
//@ ret p
//@ sig
    ensures p == pos_of(index, text@),
//@ assume_body fn as_position
//@end
//@extract lsp4spl/src/document.rs :: fn utf16_len
//@ ret n
//@ sig
    requires range.start <= range.end,
    ensures n == utf16_units(range.start, range.end, text@),
//@ assume_body fn utf16_len
//@end
//@extract lsp4spl/src/document.rs :: fn as_pos_range
//@ ret r
//@ sig
    ensures
        r.start == pos_of(range.start, text@) && r.end == pos_of(range.end, text@), //# as_pos_range::componentwise
//@end
/// the byte offset LSP assigns to a position in `text` — defined by the executable reference in kani/positions
pub uninterp spec fn idx_of(p: Position, text: Seq<char>) -> usize;
//~assume document.rs::get_insertion_index(p, text) == idx_of(p, text): abstract in Verus; checked against the LSP reference by Kani unit `positions` (bounded)
//@extract lsp4spl/src/document.rs :: fn get_insertion_index
//@ ret i
//@ sig
    ensures i == idx_of(*position, text@),
//@ assume_body fn get_insertion_index
//@end
//@extract lsp4spl/src/document.rs :: fn as_index_range
//@ ret r
//@ sig
    ensures
        r.start == idx_of(pos_range.start, text@) && r.end == idx_of(pos_range.end, text@), //# as_index_range::componentwise
//@end
