// shared: position functions of document.rs as used by other units — contracts only (R10); the bodies are verified in unit `positions`
//@include inc_posmodel.rs
//~assume document.rs::{as_position, get_insertion_index} satisfy their contracts (proved, unbounded, in unit `positions`; used here by contract only)
//@extract lsp4spl/src/document.rs :: fn as_position
//@ ret p
//@ sig
    requires text_fits(text@),
    ensures p == pos_of(index, text@),
//@ assume_body fn as_position
//@end
//~assume document.rs::utf16_len(range, text) is the number of UTF-16 code units of the characters in the range (str slicing / encode_utf16 have no specification; checked by Kani unit `positions`, bounded)
//@extract lsp4spl/src/document.rs :: fn utf16_len
//@ ret n
//@ sig
    requires range.start <= range.end,
    ensures n == utf16_units(range.start, range.end, text@),
//@ assume_body fn utf16_len
//@end
//@extract lsp4spl/src/document.rs :: fn as_pos_range
//@ ret r
//@ sig
    requires text_fits(text@),
    ensures
        r.start == pos_of(range.start, text@) && r.end == pos_of(range.end, text@), //# as_pos_range::componentwise
//@end
//@extract lsp4spl/src/document.rs :: fn get_insertion_index
//@ ret i
//@ sig
    requires text_fits(text@),
    ensures i == idx_of(*position, text@), is_boundary(text@, i as int),
//@ assume_body fn get_insertion_index
//@end
//@extract lsp4spl/src/document.rs :: fn as_index_range
//@ ret r
//@ sig
    requires text_fits(text@),
    ensures
        r.start == idx_of(pos_range.start, text@) && r.end == idx_of(pos_range.end, text@), //# as_index_range::componentwise
//@end
