// shared by units `goto`, `hover`, `refdispatch`, `cursor`: the document cursor of features.rs, the symbol table model, range traits for table entries, shims
//~assume Range<usize>::clone returns an equal range (assume_specification through vstd's `cloned`)
pub assume_specification<Idx: Clone> [<Range<Idx> as Clone>::clone] (r: &Range<Idx>) -> (c: Range<Idx>)
    ensures cloned(r.start, c.start), cloned(r.end, c.end);

//@include inc_symtab.rs

// R7 stand-ins: lsp_types::Location (same public fields), url::Url and color_eyre's Report as opaque types
#[verifier::external_body]
pub struct Url { pub opaque: u8 }
#[verifier::external_body]
pub struct Report { pub opaque: u8 }
pub struct Location { pub uri: Url, pub range: PosRange }

//@extract spl_frontend/src/lib.rs :: struct AnalyzedSource
//@ rewrite drop_derive
//@end
//@extract lsp4spl/src/features.rs :: struct Ident
//@ rewrite drop_derive pub_fields
//@end
//@extract lsp4spl/src/features.rs :: struct DocumentCursor
//@ rewrite pub_fields
//@end

pub open spec fn range_in(ts: Seq<Token>, r: Range<usize>) -> bool {
    (r.start < r.end && r.end <= ts.len()) || (!(r.start < r.end) && r.end < ts.len())
}
pub open spec fn text_range_of(ts: Seq<Token>, r: Range<usize>) -> Range<usize> {
    if r.start < r.end { ts[r.start as int].range.start..ts[r.end - 1].range.end } else { ts[r.end as int].range.end..ts[r.end as int].range.end }
}
pub trait ToRange {
    spec fn range_spec(&self) -> Range<usize>;
    fn to_range(&self) -> (r: Range<usize>)
        ensures r == self.range_spec();
}
pub trait ToTextRange {
    spec fn node_range(&self) -> Range<usize>;
    fn to_text_range(&self, tokens: &[Token]) -> (r: Range<usize>)
        requires range_in(tokens@, self.node_range()),
        ensures r == text_range_of(tokens@, self.node_range());
}
//@extract spl_frontend/src/ast.rs :: impl ToRange for AstInfo
//@ open
    open spec fn range_spec(&self) -> Range<usize> { self.range }
//@end
//@extract spl_frontend/src/ast.rs :: impl ToTextRange for AstInfo
//@ rewrite range_is_empty
//@ open
    open spec fn node_range(&self) -> Range<usize> { self.range }
//@end
//@extract spl_frontend/src/ast.rs :: derive ToRange :: struct Identifier
//@ open
    open spec fn range_spec(&self) -> Range<usize> { self.info.range }
//@end
//@extract spl_frontend/src/ast.rs :: derive ToTextRange :: struct Identifier
//@ open
    open spec fn node_range(&self) -> Range<usize> { self.info.range }
//@end
//@extract spl_frontend/src/table.rs :: impl ToRange for VariableEntry
//@ open
    open spec fn range_spec(&self) -> Range<usize> { self.range }
//@end
//@extract spl_frontend/src/table.rs :: impl ToRange for ProcedureEntry
//@ open
    open spec fn range_spec(&self) -> Range<usize> { self.range }
//@end
//@extract spl_frontend/src/table.rs :: impl ToRange for TypeEntry
//@ open
    open spec fn range_spec(&self) -> Range<usize> { self.range }
//@end
//@extract spl_frontend/src/table.rs :: impl ToRange for GlobalEntry
//@ open
    open spec fn range_spec(&self) -> Range<usize> { match self { GlobalEntry::Procedure(p) => p.range, GlobalEntry::Type(t) => t.range } }
//@end
//@extract spl_frontend/src/table.rs :: impl ToRange for Entry<'_>
//@ open
    open spec fn range_spec(&self) -> Range<usize> { match self { Entry::Type(t) => t.range, Entry::Procedure(p) => p.range, Entry::Variable(v) => v.range, Entry::Parameter(v) => v.range } }
//@end
//@extract spl_frontend/src/table.rs :: impl ToTextRange for GlobalEntry
//@ rewrite drop_crate_path
//@ open
    open spec fn node_range(&self) -> Range<usize> { match self { GlobalEntry::Procedure(p) => p.name.info.range, GlobalEntry::Type(t) => t.name.info.range } }
//@end
//@extract spl_frontend/src/table.rs :: impl ToTextRange for Entry<'_>
//@ rewrite drop_crate_path
//@ open
    open spec fn node_range(&self) -> Range<usize> { match self { Entry::Type(t) => t.name.info.range, Entry::Procedure(p) => p.name.info.range, Entry::Variable(v) => v.name.info.range, Entry::Parameter(v) => v.name.info.range } }
//@end

// ---------- shims
//~assume `&v[r]` for a range r is the sub-slice from r.start to r.end (std slice indexing; panics unless r.start <= r.end <= len)
#[verifier::external_body]
pub fn slice_range<'a>(tokens: &'a [Token], r: Range<usize>) -> (s: &'a [Token])
    requires r.start <= r.end <= tokens@.len(),
    ensures s@ == tokens@.subrange(r.start as int, r.end as int),
{ &tokens[r] }
#[verifier::external_body]
pub fn string_eq_str(a: &String, b: &str) -> (r: bool)
    ensures r == (a@ == b@),
{ a == b }

// ---------- vocabulary of C12
/// "predefined entities": the names the symbol table is initialised with (table/initialization.rs :: DEFAULT_ENTRIES)
pub uninterp spec fn predefined(name: Seq<char>) -> bool;
//~assume `Entry::is_default` answers whether the entry's name is one of DEFAULT_ENTRIES (array `contains` over &str; named `predefined`)
//@extract spl_frontend/src/table.rs :: impl Entry<'_> :: fn is_default
//@ ret b
//@ sig
        ensures b == (match *self { Entry::Type(t) => predefined(t.name.value@), Entry::Procedure(p) => predefined(p.name.value@), _ => false }),
//@ assume_body fn is_default
//@end
/// the token under the cursor, if it is an identifier
pub open spec fn ident_at(ts: Seq<Token>, index: usize, from: int) -> Option<Token>
    decreases ts.len() - from
{
    if from < 0 || from >= ts.len() { None }
    else if ts[from].range.start <= index < ts[from].range.end { Some(ts[from]) }
    else { ident_at(ts, index, from + 1) }
}
/// what the cursor's identifier is (None on non-identifiers and whitespace)
pub open spec fn cursor_ident(cursor: DocumentCursor) -> Option<Ident> {
    match ident_at(cursor.doc.tokens@, cursor.index, 0) { Some(t) => match t.token_type { TokenType::Ident(name) => Some(Ident { value: name, range: t.range }), _ => None }, None => None }
}
/// the exec result carries the same name (as text) and the same range
pub open spec fn same_ident(r: Option<Ident>, want: Option<Ident>) -> bool {
    match want { Some(id) => r is Some && r->0.value@ == id.value@ && r->0.range == id.range, None => r is None }
}
pub open spec fn scope_of<'a>(doc: &'a AnalyzedSource, p: &'a ProcedureEntry) -> LookupTable<'a> {
    LookupTable { global_table: Some(&doc.table), local_table: Some(&p.local_table) }
}
