// shared: Reference<T> accessors (ast.rs), with the obvious contracts
//@extract spl_frontend/src/ast.rs :: impl<T> Deref for Reference<T>
//@ ret r fn deref
//@ sig fn deref
        ensures *r == self.reference,
//@end
