// ---- error.rs types (verbatim, derives dropped)
//@extract spl_frontend/src/error.rs :: struct SplError
//@ rewrite drop_derive drop_error_attr
//@end
//@extract spl_frontend/src/error.rs :: enum ErrorMessage
//@ rewrite drop_derive
//@end
//@extract spl_frontend/src/error.rs :: enum LexErrorMessage
//@ rewrite drop_derive
//@end
//@extract spl_frontend/src/error.rs :: enum ParseErrorMessage
//@ rewrite drop_derive
//@end
//@extract spl_frontend/src/error.rs :: enum BuildErrorMessage
//@ rewrite drop_derive
//@end
//@extract spl_frontend/src/error.rs :: enum SemanticErrorMessage
//@ rewrite drop_derive
//@end
