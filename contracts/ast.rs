// unit `ast` — C03(a): token range -> byte range conversion stays inside the document and lies on the node's own tokens;
// C02: every expect/index/slice/assert site of these functions is unreachable under the stated data invariants
use vstd::prelude::*;
use std::ops::Range;
use std::ops::Deref;
verus! {
//@include shims.rs
//@include types_error.rs
//@include types_tokens.rs
//@include types_ast.rs
//@include inc_shiftable.rs
//@include inc_reference.rs
//@include inc_errors_spec.rs

//~assume Range<usize>::clone returns an equal range (assume_specification through vstd's `cloned`)
pub assume_specification<Idx: Clone> [<Range<Idx> as Clone>::clone] (r: &Range<Idx>) -> (c: Range<Idx>)
    ensures cloned(r.start, c.start), cloned(r.end, c.end);

// ---------- spec vocabulary
/// tiling half of C06 (assumed here, the lexer is out of reach): tokens are ordered, disjoint and inside a text of n bytes
pub open spec fn tokens_tile(ts: Seq<Token>, n: int) -> bool {
    &&& forall|i: int| 0 <= i < ts.len() ==> (#[trigger] ts[i]).range.start <= ts[i].range.end <= n
    &&& forall|i: int, j: int| 0 <= i < j < ts.len() ==> (#[trigger] ts[i]).range.end <= (#[trigger] ts[j]).range.start
}
/// a token range that can be converted: non-empty ranges lie inside the token vector, empty ones name an existing token
pub open spec fn range_in(ts: Seq<Token>, r: Range<usize>) -> bool {
    (r.start < r.end && r.end <= ts.len()) || (!(r.start < r.end) && r.end < ts.len())
}
/// "lies on the offending construct": from the start of the first token to the end of the last token of the range;
/// an empty range denotes the point behind token r.end
pub open spec fn text_range_of(ts: Seq<Token>, r: Range<usize>) -> Range<usize> {
    if r.start < r.end { ts[r.start as int].range.start..ts[r.end - 1].range.end } else { ts[r.end as int].range.end..ts[r.end as int].range.end }
}
/// "every range ever published lies inside the document" (byte level)
pub proof fn lemma_text_range_inside(ts: Seq<Token>, r: Range<usize>, n: int)
    requires tokens_tile(ts, n), range_in(ts, r),
    ensures text_range_of(ts, r).start <= text_range_of(ts, r).end <= n, //# lemma_text_range_inside
{
    if r.start < r.end {
        if r.start < r.end - 1 {
            assert(ts[r.start as int].range.end <= ts[r.end - 1].range.start);
        }
    }
}

// ---------- traits with contracts
//@extract spl_frontend/src/lib.rs :: trait ToRange
//@ open
    spec fn range_spec(&self) -> Range<usize>;
//@ ret r fn to_range
//@ sig fn to_range
        ensures r == self.range_spec(), //# ToRange::to_range::own_range
//@end
//@extract spl_frontend/src/lib.rs :: trait ToTextRange
//@ open
    spec fn node_range(&self) -> Range<usize>;
//@ ret r fn to_text_range
//@ sig fn to_text_range
        requires range_in(tokens@, self.node_range()),
        ensures r == text_range_of(tokens@, self.node_range()), //# ToTextRange::to_text_range::first_to_last_token
//@end

// ---------- AstInfo
//@extract spl_frontend/src/ast.rs :: impl AstInfo :: fn new
//@ ret r
//@ sig
        ensures r.range == range && r.errors@.len() == 0, //# AstInfo::new::no_errors
//@end
//@extract spl_frontend/src/ast.rs :: impl AstInfo :: fn new_with_errors
//@ ret r
//@ sig
        ensures r.range == range && r.errors == errors, //# AstInfo::new_with_errors::fields
//@end
//@extract spl_frontend/src/ast.rs :: impl AstInfo :: fn append_error
//@ sig
        ensures final(self).range == old(self).range && final(self).errors@ == old(self).errors@.push(error), //# AstInfo::append_error::appended_last
//@end
//@extract spl_frontend/src/ast.rs :: impl AstInfo :: fn extend_range
//@ rewrite usize_min usize_max
//@ sig
        ensures
            final(self).errors == old(self).errors,
            final(self).range.start <= old(self).range.start && final(self).range.start <= other.range.start, //# AstInfo::extend_range::covers_both_starts
            final(self).range.end >= old(self).range.end && final(self).range.end >= other.range.end, //# AstInfo::extend_range::covers_both_ends
            final(self).range.start == old(self).range.start || final(self).range.start == other.range.start,
            final(self).range.end == old(self).range.end || final(self).range.end == other.range.end,
//@end
//@extract spl_frontend/src/ast.rs :: impl AstInfo :: fn slice
//@ ret r
//@ sig
        requires self.range.start <= self.range.end <= tokens@.len(),
        ensures r@ == tokens@.subrange(self.range.start as int, self.range.end as int), //# AstInfo::slice::own_tokens
//@end
//@extract spl_frontend/src/ast.rs :: impl ToRange for AstInfo
//@ open
    open spec fn range_spec(&self) -> Range<usize> { self.range }
//@end
//@extract spl_frontend/src/ast.rs :: impl ToTextRange for AstInfo
//@ rewrite range_is_empty
//@ open
    open spec fn node_range(&self) -> Range<usize> { self.range }
//@end
//@extract spl_frontend/src/ast.rs :: impl Shiftable for AstInfo
//@ open
    open spec fn shift_ok(self, offset: usize) -> bool { range_fits(self.range, offset as int) }
    open spec fn shifted(self, offset: usize, r: Self) -> bool { r == (AstInfo { range: range_plus(self.range, offset as int), errors: self.errors }) }
//@end

// ---------- other ToRange impls that are plain code
//@extract spl_frontend/src/error.rs :: impl ToRange for SplError
//@ open
    open spec fn range_spec(&self) -> Range<usize> { self.0 }
//@end
//@extract spl_frontend/src/tokens.rs :: impl ToRange for Token
//@ open
    open spec fn range_spec(&self) -> Range<usize> { self.range }
//@end
//@extract spl_frontend/src/ast.rs :: impl<T: ToRange> ToRange for Reference<T>
//@ open
    open spec fn range_spec(&self) -> Range<usize> { self.reference.range_spec() }
//@end

// ---------- derived impls (R5: what spl_frontend_macros generates), for the node kinds whose ranges reach a client
//@extract spl_frontend/src/ast.rs :: derive ToRange :: struct Identifier
//@ open
    open spec fn range_spec(&self) -> Range<usize> { self.info.range }
//@end
//@extract spl_frontend/src/ast.rs :: derive ToTextRange :: struct Identifier
//@ open
    open spec fn node_range(&self) -> Range<usize> { self.info.range }
//@end
//@extract spl_frontend/src/ast.rs :: derive ToRange :: struct ProcedureDeclaration
//@ open
    open spec fn range_spec(&self) -> Range<usize> { self.info.range }
//@end
//@extract spl_frontend/src/ast.rs :: derive ToTextRange :: struct ProcedureDeclaration
//@ open
    open spec fn node_range(&self) -> Range<usize> { self.info.range }
//@end
//@extract spl_frontend/src/ast.rs :: derive ToRange :: struct TypeDeclaration
//@ open
    open spec fn range_spec(&self) -> Range<usize> { self.info.range }
//@end
//@extract spl_frontend/src/ast.rs :: derive ToTextRange :: struct TypeDeclaration
//@ open
    open spec fn node_range(&self) -> Range<usize> { self.info.range }
//@end
//@extract spl_frontend/src/ast.rs :: derive ToRange :: struct CallStatement
//@ open
    open spec fn range_spec(&self) -> Range<usize> { self.info.range }
//@end
//@extract spl_frontend/src/ast.rs :: derive ToTextRange :: struct CallStatement
//@ open
    open spec fn node_range(&self) -> Range<usize> { self.info.range }
//@end
//@extract spl_frontend/src/ast.rs :: derive ToRange :: enum GlobalDeclaration
//@ open
    open spec fn range_spec(&self) -> Range<usize> {
        match self { GlobalDeclaration::Type(t) => t.info.range, GlobalDeclaration::Procedure(p) => p.info.range, GlobalDeclaration::Error(i) => i.range }
    }
//@end
//@extract spl_frontend/src/ast.rs :: derive ToTextRange :: enum GlobalDeclaration
//@ open
    open spec fn node_range(&self) -> Range<usize> {
        match self { GlobalDeclaration::Type(t) => t.info.range, GlobalDeclaration::Procedure(p) => p.info.range, GlobalDeclaration::Error(i) => i.range }
    }
//@end

// ---------- Identifier::to_error — the range of every name-related diagnostic
//~assume `Into<ErrorMessage>` conversions and the message constructor passed to Identifier::to_error are total (they only wrap the name)
pub trait IntoErrorMessage { fn into_msg(self) -> ErrorMessage; }
#[verifier::external_body]
pub fn string_clone(s: &String) -> (r: String)
    ensures r@ == s@,
{ s.clone() }
//@extract spl_frontend/src/error.rs :: impl Identifier :: fn to_error
//@ rewrite string_clone_self_value
//@ ret e
//@ sig
        requires self.info.range.end > 0, forall|s: String| call_requires(msg, (s,)),
        ensures
            e.0.end == self.info.range.end && e.0.start == self.info.range.end - 1, //# Identifier::to_error::on_the_name_token
            exists|s: String, t: T| s@ == self.value@ && call_ensures(msg, (s,), t) && call_ensures(<T as Into<ErrorMessage>>::into, (t,), e.1), //# Identifier::to_error::message_built_from_the_name
//@end

// ---------- AnalyzedSource::errors — what is published as diagnostics
// R7 stand-in: the symbol table is not used by errors()
pub struct GlobalTable { pub opaque: u8 }
//@extract spl_frontend/src/lib.rs :: struct AnalyzedSource
//@ rewrite drop_derive
//@end
//~assume `impl ErrorContainer for Program` satisfies the trait contract (proved in unit `errors`, used here by contract only)
//@extract spl_frontend/src/ast/error_container.rs :: impl ErrorContainer for Program
//@ open
    open spec fn errors_ok(&self) -> bool { ok_prog(*self) }
    open spec fn spec_errors(&self) -> Seq<SplError> { se_prog(*self) }
//@ assume_body fn errors
//@end
//~assume `v.into_iter().map(f).collect()` applies f to every element in order (std iterator semantics; R6)
#[verifier::external_body]
pub fn vec_map_collect<F: Fn(SplError) -> SplError>(v: Vec<SplError>, f: F) -> (r: Vec<SplError>)
    requires forall|i: int| 0 <= i < v@.len() ==> call_requires(f, (#[trigger] v@[i],)),
    ensures r@.len() == v@.len(), forall|i: int| 0 <= i < v@.len() ==> call_ensures(f, (v@[i],), #[trigger] r@[i]),
{ v.into_iter().map(f).collect() }

/// every error range in the tree names tokens that exist (established by the parser; assumed)
pub open spec fn error_ranges_in(es: Seq<SplError>, ts: Seq<Token>) -> bool {
    forall|i: int| 0 <= i < es.len() ==> range_in(ts, (#[trigger] es[i]).0)
}
//@extract spl_frontend/src/lib.rs :: impl ErrorContainer for AnalyzedSource
//@ rewrite map_collect range_is_empty
//@ open
    open spec fn errors_ok(&self) -> bool { ok_prog(self.ast) && error_ranges_in(se_prog(self.ast), self.tokens@) }
    open spec fn spec_errors(&self) -> Seq<SplError> {
        Seq::new(se_prog(self.ast).len(), |i: int| SplError(text_range_of(self.tokens@, se_prog(self.ast)[i].0), se_prog(self.ast)[i].1))
    }
//@ closure |error| : SplError
 -> (r: SplError)
                requires range_in(self.tokens@, error.0),
                ensures r == SplError(text_range_of(self.tokens@, error.0), error.1),
//@ before "vec_map_collect("
let r =
//@ after "})"
;
        assert(r@ =~= self.spec_errors());
        r
//@end

/// C03 "every range ever published lies inside the document", byte level: all diagnostics of a document
pub proof fn lemma_published_inside(src: AnalyzedSource, n: int, i: int)
    requires src.errors_ok(), tokens_tile(src.tokens@, n), 0 <= i < src.spec_errors().len(),
    ensures src.spec_errors()[i].0.start <= src.spec_errors()[i].0.end <= n, //# lemma_published_inside
{
    lemma_text_range_inside(src.tokens@, se_prog(src.ast)[i].0, n);
}

//~assume tokens tile the text (tiling half of C06; the nom lexer is out of reach) and every node / error range names existing tokens (`range_in`; established by the nom parser and by Identifier::to_error under `range.end > 0`)
//~not_decided (here) whether the handlers pass the right token slice to to_text_range: decided for go-to, hover, references and signature help in units `goto`, `hover`, `refdispatch`, `sighelp`
pub proof fn witness_ast(t: Token) {
    let ts = seq![t];
    let r: Range<usize> = 0usize..1usize;
    assert(range_in(ts, r));
    assert(text_range_of(ts, r) == (t.range.start..t.range.end));
}
}
fn main() {}
