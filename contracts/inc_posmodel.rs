// shared: the LSP position model over the characters of a text, std shims, lemmas (proved wherever included)
// R7 stand-ins for lsp_types::{Position, Range}
#[derive(Clone, Copy)]
pub struct Position { pub line: u32, pub character: u32 }
pub struct PosRange { pub start: Position, pub end: Position }
pub type TextRange = std::ops::Range<usize>;

// ---------- the LSP 3.17 position rules over the characters of the text (text@ : Seq<char>)
/// UTF-8 / UTF-16 widths of a character (definition of the encodings)
pub open spec fn utf8_width(c: char) -> int {
    if (c as u32) < 0x80 { 1 } else if (c as u32) < 0x800 { 2 } else if (c as u32) < 0x10000 { 3 } else { 4 }
}
pub open spec fn utf16_width(c: char) -> int { if (c as u32) < 0x10000 { 1 } else { 2 } }
/// byte offset of character number k
pub open spec fn byte_off(s: Seq<char>, k: int) -> int
    decreases k
{
    if k <= 0 { 0 } else { byte_off(s, k - 1) + utf8_width(s[k - 1]) }
}
/// character i ends a line: `\n`, or a `\r` that is not the first half of `\r\n`
pub open spec fn is_eol(s: Seq<char>, i: int) -> bool {
    s[i] == '\n' || (s[i] == '\r' && !(i + 1 < s.len() && s[i + 1] == '\n'))
}
/// line number and UTF-16 column of character number k
pub open spec fn line_of(s: Seq<char>, k: int) -> int
    decreases k
{
    if k <= 0 { 0 } else { line_of(s, k - 1) + (if is_eol(s, k - 1) { 1int } else { 0int }) }
}
pub open spec fn col_of(s: Seq<char>, k: int) -> int
    decreases k
{
    if k <= 0 { 0 } else if is_eol(s, k - 1) { 0 } else { col_of(s, k - 1) + utf16_width(s[k - 1]) }
}
/// byte offset j is the start of character k (or the end of the text for k == len)
pub open spec fn is_char_at(s: Seq<char>, j: int, k: int) -> bool { 0 <= k <= s.len() && byte_off(s, k) == j }
pub open spec fn is_boundary(s: Seq<char>, j: int) -> bool { exists|k: int| is_char_at(s, j, k) }
/// the position of a byte offset: its line and UTF-16 column if it is a character boundary, the end of the text otherwise
pub open spec fn pos_at(s: Seq<char>, k: int) -> Position { Position { line: line_of(s, k) as u32, character: col_of(s, k) as u32 } }
pub open spec fn pos_of(index: usize, s: Seq<char>) -> Position {
    if is_boundary(s, index as int) { pos_at(s, choose|k: int| is_char_at(s, index as int, k)) } else { pos_at(s, s.len() as int) }
}
/// where the scan for position p stops at character k: on p's line, at the first character whose column reaches p.character
/// or that is (the start of) the line terminator — "a character offset greater than the line length denotes the line end"
pub open spec fn stops_at(s: Seq<char>, k: int, p: Position) -> bool {
    line_of(s, k) == p.line && (col_of(s, k) >= p.character || s[k] == '\n' || s[k] == '\r')
}
/// the character a position resolves to: the first stop, or the end of the text (a line beyond the last one)
pub open spec fn char_of_pos(s: Seq<char>, p: Position, from: int) -> int
    decreases s.len() - from
{
    if from >= s.len() { s.len() as int } else if stops_at(s, from, p) { from } else { char_of_pos(s, p, from + 1) }
}
pub open spec fn idx_of(p: Position, s: Seq<char>) -> usize { byte_off(s, char_of_pos(s, p, 0)) as usize }
/// documents whose positions fit the protocol's u32 fields and whose length fits usize
pub open spec fn text_fits(s: Seq<char>) -> bool { 2 * s.len() < u32::MAX && byte_off(s, s.len() as int) <= usize::MAX }
pub open spec fn pos_le(a: Position, b: Position) -> bool { a.line < b.line || (a.line == b.line && a.character <= b.character) }
/// number of UTF-16 code units of the characters between two character boundaries
pub open spec fn utf16_between(s: Seq<char>, ka: int, kb: int) -> nat
    decreases kb - ka
{
    if ka >= kb { 0 } else { (utf16_width(s[ka]) + utf16_between(s, ka + 1, kb)) as nat }
}
pub open spec fn utf16_units(a: usize, b: usize, s: Seq<char>) -> nat {
    if is_boundary(s, a as int) && is_boundary(s, b as int) { utf16_between(s, choose|k: int| is_char_at(s, a as int, k), choose|k: int| is_char_at(s, b as int, k)) } else { 0 }
}

// ---------- std behaviour assumed (R4 shims; bodies are the std calls)
//~assume str::char_indices yields every character with its byte offset, in order (char_index_vec = char_indices().collect())
#[verifier::external_body]
pub fn char_index_vec(text: &str) -> (v: Vec<(usize, char)>)
    ensures v@.len() == text@.len(), forall|k: int| 0 <= k < text@.len() ==> (#[trigger] v@[k]).1 == text@[k] && v@[k].0 == byte_off(text@, k),
{ text.char_indices().collect() }
//~assume char::len_utf8 / len_utf16 are the encoding widths; str::len is the byte length; &text[j..] at a character boundary is the text from that character on; str::starts_with(char) looks at the first character
#[verifier::external_body]
pub fn char_len_utf8(c: char) -> (n: usize)
    ensures n == utf8_width(c),
{ c.len_utf8() }
#[verifier::external_body]
pub fn char_len_utf16(c: char) -> (n: usize)
    ensures n == utf16_width(c),
{ c.len_utf16() }
#[verifier::external_body]
pub fn str_len(text: &str) -> (n: usize)
    ensures n == byte_off(text@, text@.len() as int),
{ text.len() }
#[verifier::external_body]
pub fn str_suffix<'a>(text: &'a str, j: usize) -> (r: &'a str)
    requires is_boundary(text@, j as int),
    ensures forall|k: int| is_char_at(text@, j as int, k) ==> r@ == text@.subrange(k, text@.len() as int),
{ &text[j..] }
#[verifier::external_body]
pub fn str_starts_with_char(rest: &str, c: char) -> (b: bool)
    ensures b == (rest@.len() > 0 && rest@[0] == c),
{ rest.starts_with(c) }

// ---------- lemmas about the model
pub proof fn lemma_byte_off_increasing(s: Seq<char>, a: int, b: int)
    requires 0 <= a < b <= s.len(),
    ensures byte_off(s, a) < byte_off(s, b), //# lemma_byte_off_increasing
    decreases b - a
{
    if a + 1 < b { lemma_byte_off_increasing(s, a, b - 1); }
}
/// a byte offset is the start of at most one character
pub proof fn lemma_char_at_unique(s: Seq<char>, j: int, k1: int, k2: int)
    requires is_char_at(s, j, k1), is_char_at(s, j, k2),
    ensures k1 == k2, //# lemma_char_at_unique
{
    if k1 < k2 { lemma_byte_off_increasing(s, k1, k2); }
    if k2 < k1 { lemma_byte_off_increasing(s, k2, k1); }
}
pub proof fn lemma_line_col_bounds(s: Seq<char>, k: int)
    requires 0 <= k <= s.len(),
    ensures
        0 <= line_of(s, k) <= k, //# lemma_line_col_bounds::line
        0 <= col_of(s, k) <= 2 * k, //# lemma_line_col_bounds::column
    decreases k
{
    if k > 0 { lemma_line_col_bounds(s, k - 1); }
}
/// positions never move backwards along the text (monotonicity on character boundaries)
pub proof fn lemma_pos_monotone(s: Seq<char>, a: int, b: int)
    requires 0 <= a <= b <= s.len(),
    ensures line_of(s, a) < line_of(s, b) || (line_of(s, a) == line_of(s, b) && col_of(s, a) <= col_of(s, b)), //# lemma_pos_monotone
    decreases b - a
{
    if a < b { lemma_pos_monotone(s, a, b - 1); }
}

/// positions of character boundaries are monotone in the offset (used by fold and the semantic token walk)
pub proof fn lemma_pos_of_monotone(s: Seq<char>, a: usize, b: usize)
    requires text_fits(s), a <= b, is_boundary(s, a as int), is_boundary(s, b as int),
    ensures pos_le(pos_of(a, s), pos_of(b, s)), //# lemma_pos_of_monotone
{
    let ka = choose|k: int| is_char_at(s, a as int, k);
    let kb = choose|k: int| is_char_at(s, b as int, k);
    if ka > kb { lemma_byte_off_increasing(s, kb, ka); }
    lemma_pos_monotone(s, ka, kb);
    lemma_line_col_bounds(s, ka);
    lemma_line_col_bounds(s, kb);
}
