#!/usr/bin/env python3
"""Markdown inventory of the items under contract, generated from the units (after a run: build/gen/*.map.json)."""
import json, os, glob
ROOT = os.path.dirname(os.path.dirname(os.path.abspath(__file__)))
cfg = json.load(open(os.path.join(ROOT, "units.json")))
base = json.load(open(os.path.join(ROOT, "baseline_obligations.json")))
serves = {}
for p, c in cfg["properties"].items():
    for u in c.get("verus", []):
        serves.setdefault(u, []).append(p)
    for k in c.get("kani", []):
        serves.setdefault("kani:" + k, []).append(p)
print("| unit | engine | serves | obligations | source items (file :: path) |")
print("|---|---|---|---|---|")
for u in sorted(base):
    mp = os.path.join(ROOT, "build", "gen", u + ".rs.map.json")
    items = []
    if os.path.exists(mp):
        m = json.load(open(mp))
        seen = set()
        for it in m["items"]:
            if it["path"].startswith(("struct ", "enum ", "const ")):
                continue
            key = it["file"].split("/")[-1] + " :: " + it["path"]
            if key not in seen:
                seen.add(key)
                items.append(key)
    print(f"| {u} | Verus | {', '.join(sorted(serves.get(u, [])))} | {len(base[u])} | " + "; ".join(f"`{i}`" for i in items) + " |")
for k in sorted(os.listdir(os.path.join(ROOT, "kani"))):
    hj = os.path.join(ROOT, "kani", k, "harnesses.json")
    if not os.path.exists(hj):
        continue
    c = json.load(open(hj))
    fns = sorted({h["fn"] for h in c["harnesses"]})
    kind = "complete" if c.get("complete") else "bounded"
    print(f"| {k} | Kani ({kind}) | {', '.join(sorted(serves.get('kani:' + k, [])))} | {len(c['harnesses'])} harnesses | " + "; ".join(f"`{f}`" for f in fns) + " |")
