#!/usr/bin/env python3
"""Mechanical extractor: template (contracts/*.rs) + /repo working tree -> one Verus/Kani/rustc file.

Template directives (every directive line starts with `//@`):

  //@include <path relative to contracts/>
  //@extract <repo file> :: <seg> [:: <seg>]...
  //@ rewrite <name>                 one of REWRITES below (closed list, logged)
  //@ ret <name> [fn <f>]            name the return value:  -> T   becomes  -> (name: T)
  //@ sig [fn <f>]                   payload lines are inserted between signature and body
  //@ attr [fn <f>]                  payload inserted in front of the fn (attributes)
  //@ open                           payload inserted right after the item's opening brace
  //@ before "<anchor>" | after "<anchor>"   payload inserted before/after a unique piece of source text
  //@ loop <k> [fn <f>]              payload inserted between the k-th loop header and its body
  //@ lift <signature>               (closure items) emit `signature { body }`
  //@ vis keep                       do not turn the item's visibility into `pub`
  //@end

Segments: `fn N`, `struct N`, `enum N`, `trait N`, `const N`, `type N`, `impl <header as written>`,
`closure |<params as written>|`.  A path must resolve to exactly one item, otherwise LostAnchor.
A payload line may end in `//# label`; that names the obligation stated on that line.

What is emitted for an item is its source text verbatim, changed only by (1) the listed rewrites and
(2) insertions.  Both are recorded in the map file; `verbatim` is re-checked by stripping the insertions.
"""
import hashlib
import json
import os
import re
import sys

sys.path.insert(0, os.path.dirname(os.path.abspath(__file__)))
import rscan  # noqa: E402

REPO = os.environ.get("VERIF_REPO", "/repo")
CONTRACTS = os.path.join(os.path.dirname(os.path.dirname(os.path.abspath(__file__))), "contracts")


class LostAnchor(Exception):
    pass


# ----------------------------------------------------------------------------------------------
# rewrites (closed list).  kind "m2f": RECV.method(ARGS) -> fname(<mode>RECV, ARGS)
#                          kind "sub": exact text substitution, must occur at least once
#                          kind "re":  regex substitution, must occur at least once
# ----------------------------------------------------------------------------------------------
REWRITES = {
    # R4: std functions without a vstd specification -> shim with the std body (see contracts/shims.rs)
    "range_is_empty": ("m2f", "is_empty", "range_is_empty", "&", "Range::<usize>::is_empty has no vstd spec"),
    "range_contains": ("m2f", "contains", "range_contains", "&", "Range::<usize>::contains has no vstd spec"),
    "range_len": ("m2f", "len", "range_len", "&", "ExactSizeIterator::len for Range<usize> has no vstd spec"),
    "usize_max": ("m2f", "max", "usize_max", "", "Ord::max for usize has no vstd spec"),
    "usize_min": ("m2f", "min", "usize_min", "", "Ord::min for usize has no vstd spec"),
    "vec_extend": ("m2f", "extend", "vec_extend", "&mut ", "Extend::extend is generic over IntoIterator; shim for Vec<T> argument"),
    "string_eq_str": ("re", r"(\b[\w\.]+)\s*==\s*name\b", r"string_eq_str(&\1, name)", "String == &str (PartialEq<&str> for String) has no vstd spec"),
    "usize_from_u8": ("re", r"usize::from\(", "usize_from_u8(", "From<u8> for usize: shim `x as usize`"),
    # R1
    "drop_derive": ("re", r"#\[derive\([^\]]*\)\]\s*", "", "derive attributes cannot be expanded by Verus"),
    "drop_error_attr": ("re", r"#\[error\([^\]]*\)\]\s*", "", "thiserror attribute"),
    "drop_repr": ("re", r"#\[repr\([^\]]*\)\]\s*", "", "repr attribute on an enum with payload"),
    "drop_discriminants": ("re", r"\s=\s\d+,", ",", "explicit enum discriminants (only used for numbering messages)"),
    # R3
    "static_str_const": ("re", r"(const\s+\w+\s*:\s*)&str", r"\1&'static str", "Verus treats consts as functions"),
    # per-site
    "as_ref_on_mut_reference": ("re", r"(\b\w+)\.as_ref\(\)", r"Reference::as_ref(&*\1)", "x.as_ref() on &mut Reference<T> resolves to the std blanket impl `<&mut T as AsRef<U>>::as_ref`, whose body is exactly this call"),
    "usize_to_isize_expect": ("re", r"(let \w+: isize = )([\w\.\(\)&]+)\.try_into\(\)\.expect\((\"[^\"]*\")\);", r"\1usize_to_isize_expect(\2, \3);", "TryFrom<usize> for isize has no vstd spec; shim = `x.try_into().expect(msg)`, panics iff x > isize::MAX"),
    "isize_to_usize_expect": ("re", r"(let \w+: usize = )(\([^;]*?\))\.try_into\(\)\.expect\((\"[^\"]*\")\);", r"\1isize_to_usize_expect(\2, \3);", "TryFrom<isize> for usize has no vstd spec; shim = `x.try_into().expect(msg)`, panics iff x < 0"),
    "flat_map_extend": ("re", r"(?s)errors\s*\.extend\(\s*self\s*\.(\w+)\s*\.iter\(\)\s*\.flat_map\((.*?)\),?\s*\);", r"extend_flat_map(&mut errors, &self.\1, \2);", "Vec::extend(iter().flat_map(f)) -> shim with the same std body; `flat_map` applies f to each element in order and concatenates (assumed, R6)"),
    "map_collect": ("re", r"(?s)(\w+)\s*\.into_iter\(\)\s*\.map\((.*)\)\s*\.collect\(\)", r"vec_map_collect(\1, \2)", "v.into_iter().map(f).collect() -> shim with the same std body; `map` applies f to each element in order (assumed, R6)"),
    "as_ref_on_mut_box_reference": ("re", r"(\b\w+)\.as_ref\(\)\.as_ref\(\)", r"Reference::as_ref(&**\1)", "x.as_ref().as_ref() on &mut Box<Reference<T>>: std blanket impl + Box::as_ref (`&**self`) + Reference::as_ref"),
    "and_then_inline": ("opt_closure", "and_then", ("", ""), "Option::and_then(f) inlined as its std definition `match self { Some(x) => f(x), None => None }` (Verus has no closures that capture &mut)"),
    "map_inline": ("opt_closure", "map", ("Some(", ")"), "Option::map(f) inlined as its std definition `match self { Some(x) => Some(f(x)), None => None }`"),
    "range_eq_deref": ("re", r"\*(\w+) == token\.range", r"range_eq(\1, &token.range)", "derived PartialEq for Range<usize> has no vstd spec; shim compares start and end (the derived definition)"),
    "string_replace_range": ("m2f", "replace_range", "string_replace_range", "", "String::replace_range has no vstd spec; shim with the std call (receiver is already `&mut String` in the lifted closure)"),
    "string_len": ("re", r"\btemp_text\.len\(\)", r"string_len(&temp_text)", "String::len (byte length) — shim with the std call"),
    "flat_map_collect": ("chain_fmc", "", "", "xs.iter().flat_map(f).collect() -> shim with the same std body (R8)"),
    "map_or_inline": ("opt_map_or", "", "", "Option::map_or(default, f) inlined as its std definition `match self { Some(x) => f(x), None => default }`"),
    "map_or_else_inline": ("opt_map_or", "else", "", "Option::map_or_else(d, f) inlined as its std definition `match self { Some(x) => f(x), None => d() }`"),
    "string_eq_fields": ("re", r"\bp\.name\.value == ident\.value\b", r"string_eq(&p.name.value, &ident.value)", "String == String has no vstd spec -> shim with the std comparison"),
    "identifier_value_clone": ("re", r"\bidentifier\.value\.clone\(\)", r"string_clone(&identifier.value)", "String::clone -> shim (r@ == s@)"),
    "new_name_clone": ("re", r"\bnew_name\.clone\(\)", r"string_clone(&new_name)", "String::clone -> shim (r@ == s@)"),
    "uri_clone": ("re", r"\buri\.clone\(\)", r"url_clone(&uri)", "Url::clone -> shim on the opaque stand-in (r == *u)"),
    "ident_ne": ("re", r"\|i\| i != ident\b", r"|i| !ident_eq(i, ident)", "derived PartialEq of `Ident` (`!=` on two references) written as the structural comparison it resolves to (R1)"),
    "map_map_collect": ("re", r"(?s)idents\s*\.into_iter\(\)\s*\.map\((\|identifier\|.*?)\)\s*\.map\((\|ident\|.*?)\)\s*\.collect\(\)", r"vec_map_map_collect(idents, \1, \2)", "v.into_iter().map(f).map(g).collect() -> shim with the same std body (R8)"),
    "map_filter_map_collect": ("re", r"(?s)identifiers\s*\.into_iter\(\)\s*\.map\((\|identifier\|.*?)\)\s*\.filter\((\|i\|.*?)\)\s*\.map\((\|i\|.*?)\)\s*\.collect\(\)", r"vec_map_filter_map_collect(identifiers, \1, \2, \3)", "v.into_iter().map(f).filter(p).map(g).collect() -> shim with the same std body (R8)"),
    "workspace_edit_single": ("re", r"(?s)WorkspaceEdit \{\s*changes: Some\(HashMap::from\(\[\(uri, text_edits\)\]\)\),\s*\.\.Default::default\(\)\s*\}", r"workspace_edit_single(uri, text_edits)", "WorkspaceEdit { changes: Some(HashMap::from([(uri, edits)])), ..Default::default() } -> shim with that body on an opaque stand-in: the edit of one document"),
    "iter_find": ("chain_fmc2", "find", "iter_find", "xs.iter().find(p) -> shim with the same std body (R8): the first element satisfying p"),
    "name_clone": ("re", r"\bname\.clone\(\)", r"string_clone(name)", "String::clone -> shim (r@ == s@)"),
    "drop_document_path": ("re", r"\bdocument::get_insertion_index\b", "get_insertion_index", "single file: the module path is dropped"),
    "doc_tokens_from": ("re", r"&doc\.tokens\[gd\.offset\.\.\]", "slice_from(&doc.tokens, gd.offset)", "&s[a..] (RangeFrom indexing) -> shim, panics iff a > len"),
    "lookup_cloned": ("re", r"doc\.table\.lookup\(&name\.value\)\.cloned\(\)", "option_cloned(doc.table.lookup(&name.value))", "Option<&T>::cloned -> shim; derived Clone of GlobalEntry is structural (R1)"),
    "opt_datatype_ne": ("re", r"\bt\.data_type != v\.data_type\b", "!opt_datatype_eq(&t.data_type, &v.data_type)", "derived PartialEq of Option<DataType> written as the structural comparison it resolves to (R1)"),
    "map_entry_from": ("re", r"\.map\(Entry::from\)", ".map(|e_| Entry::from(e_))", "a function path passed to Option::map written as the closure it denotes (eta expansion, R14)"),
    "proc_statements_loop": ("re", r"(?s)proc\.statements\s*\.iter_mut\(\)\s*\.for_each\(\|stmt\| stmt\.analyze\(lookup_table\)\)", "analyze_statements_loop(&mut proc.statements, lookup_table)", "R13: the loop over the statements of a procedure body -> call of an external function with the loop's contract (every statement analysed in place with that table)"),
    "range_ne": ("re", r"\bproc_entry\.range != range\b", "!range_eq(&proc_entry.range, &range)", "Range != Range -> shim (PartialEq for Range<usize> has no vstd spec)"),
    "procs_filter_map_find": ("re", r"(?s)program\s*\.global_declarations\s*\.iter\(\)\s*\.filter_map\((\|gd\| match gd\.as_ref\(\) \{.*?\})\)\s*\.find\((\|\(pd, _\)\| \{.*?\})\)", r"filter_map_find(&program.global_declarations, \1, \2)", "xs.iter().filter_map(f).find(p) -> shim with the same std body (R8): the first Some result of f that satisfies p"),
    "find_vars_closure_to_call": ("re", r"(?s)\.map_or_else\(Vec::new, \|\(pd, offset\)\| \{.*\}\)\s*\}\s*$", ".map_or_else(Vec::new, |(pd, offset)| find_vars_in_proc(pd, offset, name))\n}", "R13 for a closure: the per-procedure closure of find_vars, verified separately as the lifted `find_vars_in_proc`, is replaced inside its enclosing function by a call of that function"),
    "string_eq_proc_name": ("re", r"\bident\.value == proc_name\b", "string_eq_str(&ident.value, proc_name)", "String == &str (PartialEq<&str> for String) has no vstd spec"),
    "pd_tuple_param_to_let": ("re", r"\|\(pd, _\)\|\s*\{", "|pd_| { let (pd, _) = pd_;", "Verus closures take variables, not patterns: the tuple pattern of the parameter becomes a let binding at the start of the body"),
    "find_procs_closure_to_call": ("re", r"(?s)\.flat_map\(\|\(pd, offset\)\| \{.*\}\)\s*\.collect\(\)\s*\}\s*$", ".flat_map(|(pd, offset)| find_procs_in_proc(pd, offset, name))\n        .collect()\n}", "R13 for a closure: the per-procedure closure of find_procs, verified separately as the lifted `find_procs_in_proc`, is replaced inside its enclosing function by a call of that function"),
    "procs_filter_map_flat_map": ("re", r"(?s)program\s*\.global_declarations\s*\.iter\(\)\s*\.filter_map\((\|gd\| match gd\.as_ref\(\) \{.*?\})\)\s*\.flat_map\((\|\(pd, offset\)\| find_procs_in_proc\(pd, offset, name\))\)\s*\.collect\(\)", r"filter_map_flat_map_collect(&program.global_declarations, \1, |pd_offset| { let (pd, offset) = pd_offset; find_procs_in_proc(pd, offset, name) })", "xs.iter().filter_map(f).flat_map(g).collect() -> shim with the same std body (R8)"),
    "filter_map_filter_collect": ("re", r"(?s)(pd\s*\.\w+)\s*\.iter\(\)\s*\.filter_map\((\|\w+\| match \w+\.as_ref\(\) \{.*?\n\s*\})\)\s*\.filter\((\|ident\| [^\n]*?)\)\s*\.collect\(\)", r"filter_map_filter_collect(&\1, \2, \3)", "xs.iter().filter_map(f).filter(p).collect() -> shim with the same std body (R8)"),
    "find_types_closure_to_call": ("re", r"(?s)\.flat_map\(\|gd\| \{.*\}\)\s*\.collect\(\)\s*\}\s*$", ".flat_map(|gd| find_types_in_decl(gd, name))\n        .collect()\n}", "R13 for a closure: the per-declaration closure of find_types, verified separately as the lifted `find_types_in_decl`, is replaced inside its enclosing function by a call of that function"),
    "proc_doc_markup": ("re", r"(?s)proc_entry\.doc\.as_ref\(\)\.map\(\|doc\| \{.*?\}\)\s*\}\);", "doc_markup(&proc_entry.doc);", "the rendering of the doc comment (MarkupContent, String concatenation) -> opaque shim with that expression as body"),
    "proc_entry_label": ("re", r"\bproc_entry\.to_string\(\)", "entry_label(proc_entry)", "Display of the entry (format!) -> opaque shim"),
    "call_tokens_slice": ("re", r"&cursor\.doc\.tokens\[(call_stmt\.to_range\(\)(?:\.shift\(offset\))?)\]", r"slice_range(&cursor.doc.tokens, \1)", "&v[r] (Index<Range<usize>>) -> shim with the std indexing, panics unless r.start <= r.end <= len"),
    "cursor_tokens_from": ("re", r"&cursor\.doc\.tokens\[gd\.offset\.\.\]", "slice_from(&cursor.doc.tokens, gd.offset)", "&s[a..] (RangeFrom indexing) -> shim, panics iff a > len"),
    "params_iter_map_collect": ("re", r"(?s)proc_entry\s*\.parameters\s*\.iter\(\)\s*\.map\((.*)\)\s*\.collect\(\)", r"iter_map_collect(&proc_entry.parameters, \1)", "xs.iter().map(f).collect() -> shim with the same std body (R8): f applied to every element in order"),
    "param_to_string": ("re", r"\bparam\.to_string\(\)", "param_text(param)", "Display of a parameter entry (format!) -> opaque shim"),
    "errs_map_collect": ("re", r"(?s)self\s*\.into_iter\(\)\s*\.map\((\|err\| .*?)\)\s*\.collect\(\)", r"errs_map_collect(self, \1)", "v.into_iter().map(f).collect() -> shim with the same std body; `map` applies f to each element in order (assumed, R6)"),
    "message_to_string": ("re", r"\bmessage\.to_string\(\)", "message_text(message)", "Display of an ErrorMessage (thiserror format!) -> opaque shim"),
    "tokens_from_gd_offset": ("re", r"&tokens\[gd\.offset\.\.\]", "slice_from(tokens, gd.offset)", "&s[a..] (RangeFrom indexing) -> shim, panics iff a > len"),
    "captured_mut_pos": ("re", r"&mut previous_token_pos\b", "previous_token_pos", "R6: a captured mutable local of the enclosing function becomes a `&mut` parameter of the lifted closure; `&mut x` at its uses becomes `x`"),
    "type_tokens_walk": ("re", r"(?s)td\.info\s*\.slice\(tokens\)\s*\.iter\(\)\s*\.filter_map\(\|token\| \{.*\}\)\s*\.collect::<Vec<SemanticToken>>\(\)\s*\}\s*$", "type_tokens_walk(td.info.slice(tokens), &name_range, text, previous_token_pos)\n}", "R13 for a closure: the per-token `FnMut` closure of collect_type_dec, verified separately as a lifted function, and the `iter().filter_map(..).collect()` around it are replaced by a call of an external function (the walk over the slice in order, threading the position)"),
    "proc_tokens_walk": ("re", r"(?s)pd\.info\s*\.slice\(tokens\)\s*\.iter\(\)\s*\.filter_map\(\|token\| \{.*\}\)\s*\.collect\(\)\s*\}\s*$", "proc_tokens_walk(pd.info.slice(tokens), &name_range, &local_declarations, &lookup_table, text, previous_token_pos)\n}", "R13 for a closure: the per-token `FnMut` closure of collect_proc_dec, verified separately as a lifted function, and the `iter().filter_map(..).collect()` around it are replaced by a call of an external function"),
    "error_tokens_walk": ("re", r"(?s)info\.slice\(tokens\)\s*\.iter\(\)\s*\.filter_map\(\|token\| \{.*\}\)\s*\.collect::<Vec<SemanticToken>>\(\)\s*\}\s*$", "error_tokens_walk(info.slice(tokens), text, previous_token_pos)\n}", "R13 for a closure: the per-token closure of collect_error and the iterator chain around it are replaced by a call of an external function"),
    "super_get_local_table": ("re", r"\bsuper::get_local_table\b", "get_local_table", "single file: the module path is dropped"),
    "fold_changes": ("re", r"(?s)changes\.into_iter\(\)\.fold\(self, \|mut acc, change\| \{.*?\n        \}\)", "fold_changes(self, changes)", "R13 for a closure: the fold over the text changes, whose step is verified separately as the lifted `update_step`, is replaced by a call of an external function (the steps applied in order)"),
    "map_or_else_some": ("map_or_else_some", "", "", "Option::map_or_else(d, Some) inlined as its std definition `match self { Some(v) => Some(v), None => d() }`"),
    "block_statements_loop": ("re", r"(?s)self\.statements\s*\.iter_mut\(\)\s*\.for_each\(\|stmt\| stmt\.analyze\(table\)\)", "analyze_statements_loop(&mut self.statements, table)", "R13: the loop over the statements of a block -> call of the external function with the loop's contract (every statement analysed in place with that table)"),
    "operand_ne_int": ("re", r"\boperand_type != &DataType::Int\b", "!datatype_eq(operand_type, &DataType::Int)", "`!=` on two `&DataType` (PartialEq for references) written as the derived comparison it resolves to (R1)"),
    "box_as_ref": ("re", r"\bboxed\.as_ref\(\)", r"&**boxed", "Box::as_ref on &Box<T> replaced by its std body `&**self` (no vstd spec; generic over the allocator)"),
    "self_name_clone_to_callee": ("re", r"self\.name\.value\.clone\(\)", r"string_clone(&callee.value)", "captured field path `self.name` of the lifted loop body becomes the parameter `callee` (R6); String::clone -> shim"),
    "ref_ne": ("re", r"\barg_type != param_type\b", r"!datatype_eq(arg_type, param_type)", "`!=` on two `&DataType` (PartialEq for references) written as the derived comparison it resolves to"),
    "eta_expand_variant_ctor": ("re", r"\.to_error\((\w+)::(\w+)\)", r".to_error(|s: String| -> (r: \1) ensures r == \1::\2(s) { \1::\2(s) })", "a tuple-variant constructor passed as a function value is written as the closure it denotes (eta expansion), with its obvious postcondition"),
    "string_clone_self_value": ("re", r"self\.value\.clone\(\)", r"string_clone(&self.value)", "String::clone -> shim (`r@ == s@`)"),
    "string_clone_self_name_value": ("re", r"self\.name\.value\.clone\(\)", r"string_clone(&self.name.value)", "String::clone -> shim (`r@ == s@`)"),
    "call_argument_loop": ("loop_to_call", r"for\s*\(i,\s*\(arg,\s*param\)\)\s*in\s*std::iter::zip\(", "call_arguments_loop(&mut self.arguments, &proc_entry.parameters, &self.name, table);", "R6: the argument loop of CallStatement::analyze is replaced by a call whose contract is `the lifted loop body (verified as call_argument_rule) is applied to argument i and parameter i for every i below both lengths`"),
    "ranges_contain": ("re", r"local_declarations\.contains\(&token\.range\)", r"ranges_contain(&local_declarations, &token.range)", "Vec::contains (slice::contains) has no vstd spec -> shim with the std call"),
    "box_as_mut": ("re", r"\bboxed\.as_mut\(\)", r"&mut **boxed", "Box::as_mut on &mut Box<T> replaced by its std body `&mut **self`"),
    "ident_to_string": ("re", r"\b(creator|name)\.to_string\(\)", r"ident_to_string(\1)", "ToString via `impl Display for Identifier` (writes `self.value`) -> shim"),
    "string_is_literal": ("re", r"(\b[\w\.]+)\s*==\s*(\"[^\"]*\")", r"string_is(&\1, \2)", "String == &str literal -> shim"),
    "build_parameters_loop": ("re", r"(?s)self\s*\.parameters\s*\.iter_mut\(\)\s*\.filter_map\(\|param\| build_parameter\(param, table, &mut local_table\)\)\s*\.collect\(\)", r"build_parameters_loop(&mut self.parameters, table, &mut local_table)", "R6: iter_mut().filter_map(f).collect() replaced by a call whose contract is `f (= build_parameter, verified) is applied to every parameter in order, threading the local table; the Some results are collected in order`"),
    "build_variables_loop": ("re", r"(?s)self\.variable_declarations\s*\.iter_mut\(\)\s*\.for_each\(\|dec\| build_variable\(dec, table, &mut local_table\)\)", r"build_variables_loop(&mut self.variable_declarations, table, &mut local_table)", "R6: iter_mut().for_each(f) replaced by a call whose contract is `f (= build_variable, verified) is applied to every declaration in order, threading the local table`"),
    "local_table_default": ("re", r"LocalTable::default\(\)", r"local_table_default()", "derived Default for LocalTable (an empty HashMap) -> shim"),
    "build_declarations_loop": ("re", r"(?s)self\.global_declarations\s*\.iter_mut\(\)\s*\.map\(\|dec\| \{\s*let offset = offset \+ dec\.offset;\s*\(dec, offset\)\s*\}\)\s*\.for_each\(\|\(dec, offset\)\| dec\.build\(table, offset\)\)", r"build_declarations_loop(&mut self.global_declarations, table, offset)", "R6: iter_mut().map(..).for_each(|(dec, offset)| dec.build(table, offset)) replaced by a call whose contract is `every global declaration is built in order with offset + its Reference offset, threading the global table`"),
    "drop_lookup_as_ref": ("re", r'table\.lookup\("main"\)\.as_ref\(\)', 'table.lookup("main")', "Option<&T>::as_ref() only adds a reference level to a pattern match (no vstd spec)"),
    "char_indices_vec": ("re", r"text\.char_indices\(\)", r"char_index_vec(text)", "str::char_indices has no vstd specification (and the orphan rule forbids giving one): iterate the collected (offset, char) pairs instead - same elements, same order"),
    "starts_with_char": ("re", r"rest\.starts_with\('\\n'\)", r"str_starts_with_char(rest, '\\n')", "str::starts_with(char) -> shim"),
    "str_suffix": ("re", r"&text\[i \+ c\.len_utf8\(\)\.\.\]", r"str_suffix(text, i + char_len_utf8(c))", "&text[j..] and char::len_utf8 -> shims"),
    "char_len_utf16": ("re", r"c\.len_utf16\(\)", r"char_len_utf16(c)", "char::len_utf16 -> shim"),
    "str_len": ("re", r"\btext\.len\(\)", r"str_len(text)", "str::len -> shim (byte length)"),
    "string_replace_range_acc": ("re", r"acc\.text\.replace_range\(", r"string_replace_range(&mut acc.text, ", "String::replace_range has no vstd spec; shim with the std call"),
    "filter_map_collect": ("chain_fmc2", "filter_map", "filter_map_collect", "xs.iter().filter_map(f).collect() -> shim with the same std body (R8)"),
    "partition_collect": ("chain_fmc2", "partition", "partition_collect", "xs.into_iter().partition(p) -> shim with the same std body (R8): the elements satisfying p, and the others, each in order"),
    "change_text_len": ("re", r"\bchange\.text\.len\(\)", r"string_len(&change.text)", "String::len (byte length) — shim with the std call"),
    "change_range_len": ("re", r"\bchange\.range\.len\(\)", r"range_len(&change.range)", "ExactSizeIterator::len for Range<usize> has no vstd spec"),
    "relex_opaque": ("re", r"(?s)let reanalysis_text = .*?let new_tokens: Vec<_> = iterator\(.*?\.collect\(\);", r"let new_tokens: Vec<Token> = relex(new_text, reanalysis_start, &reusable_tokens);", "R16: the nom iterator that re-lexes the affected text (`&new_text[reanalysis_start..]`, `Span::new`, `iterator(..).map(shift).take_while(!reusable.contains).collect()`) is replaced by a call of an unspecified function; dropped: the slicing panic if reanalysis_start is not a character boundary, and everything about the re-lexed tokens"),
    "drop_crate_path": ("re", r"\bcrate::tokens::Token\b", "Token", "single file: the module path of `Token` is dropped"),
    "tokens_slice2": ("re", r"&doc\.tokens\[([\w\.]+\(\))\]\[([\w\.]+\(\))\]", r"slice_range(slice_range(&doc.tokens, \1), \2)", "&v[r] (Index<Range<usize>>) -> shim with the std indexing, panics unless r.start <= r.end <= len"),
    "tokens_slice": ("re", r"&doc\.tokens\[([\w\.]+\(\))\]", r"slice_range(&doc.tokens, \1)", "&v[r] (Index<Range<usize>>) -> shim with the std indexing, panics unless r.start <= r.end <= len"),
    "ident_eq_int": ("re", r"&ident\.value == \"int\"", r'string_eq_str(&ident.value, "int")', "String == &str (PartialEq<&str> for String) has no vstd spec"),
    "pub_fields": ("re", r"(?m)^(\s+)(\w+): ", r"\1pub \2: ", "R2 for the private fields of a struct: single file, and Verus lets specifications read only public fields"),
    "skip_while_collect": ("chain_fmc2", "skip_while", "skip_while_collect", "xs.into_iter().skip_while(p).collect() -> shim with the same std body (R8): the suffix starting at the first element that does not satisfy p"),
    "array_concat4": ("re", r"\[unaffected_head, new_tokens, unaffected_tail, vec!\[eof\]\]\.concat\(\)", "concat4(unaffected_head, new_tokens, unaffected_tail, eof)", "[a, b, c, vec![d]].concat() -> shim with the same std body: the four parts in order"),
    "find_map_first": ("chain_fm", "find_map", "find_map_first", "xs.iter().find_map(f) -> shim with the same std body (R8): the first Some result in order"),
    "option_iter_find_map": ("re", r"(?s)opt\.iter\(\)\s*\.map\(\|boxed\| boxed\.as_ref\(\)\)\s*\.find_map\(\|r\| ", r"option_find_map(opt, |r| ", "Option::iter().map(Box::as_ref).find_map(f): an Option yields at most one element -> shim `match opt { Some(b) => f(&**b), None => None }`"),
    "or_else_inline": ("opt_or_else", "", "", "Option::or_else(f) inlined as its std definition `match self { Some(v) => Some(v), None => f() }`"),
    "slice_from": ("re", r"&tokens\[offset\.\.\]", r"slice_from(tokens, offset)", "&s[a..] (RangeFrom indexing) -> shim, panics iff a > len"),
    "filter_map_map_collect": ("chain_fmm", "", "", "xs.iter().filter_map(f).map(g).collect() -> shim with the same std body (R8)"),
    "tuple_param_to_let": ("re", r"\|\(p, offset\)\|\s*\{", r"|p_offset| { let (p, offset) = p_offset;", "Verus closures take variables, not patterns: the tuple pattern of the parameter becomes a let binding at the start of the body"),
    "drop_const_fn": ("re", r"\bconst fn\b", "fn", "const fn that calls non-const shim"),
}


def _postfix_chain_start(text, dot):
    """text[dot] == '.', return start index of the receiver expression (a postfix chain)"""
    i = dot
    while True:
        # skip whitespace backwards
        j = i
        while j > 0 and text[j - 1] in " \t\r\n":
            j -= 1
        if j == 0:
            return j
        c = text[j - 1]
        if c in ")]":
            depth, k = 0, j - 1
            while k >= 0:
                if text[k] in ")]":
                    depth += 1
                elif text[k] in "([":
                    depth -= 1
                    if depth == 0:
                        break
                k -= 1
            i = k
            # a call/index is preceded by its callee
            if k > 0 and (text[k - 1] in rscan.IDENT_CONT or text[k - 1] in ")]"):
                continue
            # parenthesised expression is a primary
            return k
        if c == "}":
            # `match scrutinee { .. }` used as a receiver
            depth, k = 0, j - 1
            while k >= 0:
                if text[k] == "}":
                    depth += 1
                elif text[k] == "{":
                    depth -= 1
                    if depth == 0:
                        break
                k -= 1
            mm = None
            for mm_ in re.finditer(r"\bmatch\b", text[:k]):
                mm = mm_
            if mm is None:
                return j
            return mm.start()
        if c in rscan.IDENT_CONT:
            k = j - 1
            while k > 0 and text[k - 1] in rscan.IDENT_CONT:
                k -= 1
            i = k
            # path or field access continues the chain
            m = k
            while m > 0 and text[m - 1] in " \t\r\n":
                m -= 1
            if m >= 1 and text[m - 1] == ".":
                i = m - 1
                continue
            if m >= 2 and text[m - 2:m] == "::":
                i = m - 2
                continue
            return k
        return j


def apply_rewrite(name, text):
    if name not in REWRITES:
        raise LostAnchor(f"rewrite {name!r} is not in the closed list")
    spec = REWRITES[name]
    log = []
    if spec[0] == "m2f":
        _, method, fname, mode, why = spec
        pat = re.compile(r"\.\s*" + re.escape(method) + r"\s*\(")
        out, pos = text, 0
        count = 0
        while True:
            m = pat.search(out, pos)
            if not m:
                break
            dot = m.start()
            rs = _postfix_chain_start(out, dot)
            recv = out[rs:dot].strip()
            # arguments
            depth, k = 1, m.end()
            while depth:
                if out[k] in "([{":
                    depth += 1
                elif out[k] in ")]}":
                    depth -= 1
                k += 1
            args = out[m.end():k - 1].strip()
            # a leading & or * belongs to the receiver expression in `&a.b()`? no: method binds tighter
            new = f"{fname}({mode}{recv}" + (f", {args}" if args else "") + ")"
            log.append({"from": out[rs:k], "to": new})
            out = out[:rs] + new + out[k:]
            pos = rs + len(fname) + 1
            count += 1
        return out, {"rewrite": name, "why": why, "sites": log}
    if spec[0] == "re":
        _, pat, repl, why = spec
        sites = [m.group(0) for m in re.finditer(pat, text)]
        out = re.sub(pat, repl, text)
        return out, {"rewrite": name, "why": why, "sites": [{"from": s} for s in sites]}
    if spec[0] == "opt_closure":
        # RECV.<method>(|x| BODY) or RECV.<method>(path)  ->  match RECV { Some(x) => <wrap>(BODY), None => None }
        _, method, wrap, why = spec
        pat = re.compile(r"\.\s*" + method + r"\s*\(\s*(?:\|\s*(\w+)\s*\||([A-Za-z_][\w:]*)\s*\))")
        out, sites = text, []
        for _round in range(20):
            m = pat.search(out)
            if not m:
                break
            dot = m.start()
            rs = _postfix_chain_start(out, dot)
            recv = out[rs:dot].strip()
            if m.group(1):
                op = out.index("(", dot)
                depth, k = 1, op + 1
                while depth:
                    if out[k] in "([{":
                        depth += 1
                    elif out[k] in ")]}":
                        depth -= 1
                    k += 1
                var, body = m.group(1), out[m.end():k - 1].strip()
                if re.search(r"\breturn\b", body):
                    # `return` inside a closure leaves the closure, inlined it would leave the function: not inlinable
                    break
            else:
                k = m.end()
                var, body = "v_", f"{m.group(2)}(v_)"
            new = f"(match {recv} {{ Some({var}) => {wrap[0]}{body}{wrap[1]}, None => None }})"
            sites.append({"from": out[rs:k][:120], "to": new[:120]})
            out = out[:rs] + new + out[k:]
        return out, {"rewrite": name, "why": why, "sites": sites}
    if spec[0] == "loop_to_call":
        _, pat, repl, why = spec
        m = re.search(pat, text)
        if not m:
            return text, {"rewrite": name, "why": why, "sites": []}
        # the loop statement ends with the `}` that closes its body: first `{` at paren depth 0 after the header
        k, depth = m.end(), 1
        while depth:
            if text[k] in "([":
                depth += 1
            elif text[k] in ")]":
                depth -= 1
            k += 1
        while text[k] != "{":
            if text[k] == "(":
                d2 = 1
                k += 1
                while d2:
                    d2 += text[k] == "("
                    d2 -= text[k] == ")"
                    k += 1
                continue
            k += 1
        d3, e = 1, k + 1
        while d3:
            d3 += text[e] == "{"
            d3 -= text[e] == "}"
            e += 1
        return text[:m.start()] + repl + text[e:], {"rewrite": name, "why": why, "sites": [{"from": text[m.start():m.start() + 120] + " ... }", "to": repl}]}
    if spec[0] == "chain_fmm":
        why = spec[3]
        m = re.search(r"\.\s*iter\(\)\s*\.\s*filter_map\s*\(", text)
        if not m:
            return text, {"rewrite": name, "why": why, "sites": []}
        dot = m.start()
        rs = _postfix_chain_start(text, dot)
        recv = re.sub(r"\s+", "", text[rs:dot])
        def close(k):
            depth = 1
            while depth:
                if text[k] in "([{":
                    depth += 1
                elif text[k] in ")]}":
                    depth -= 1
                k += 1
            return k
        k1 = close(m.end())
        f = text[m.end():k1 - 1].strip()
        m2 = re.match(r"\s*\.\s*map\s*\(", text[k1:])
        if not m2:
            return text, {"rewrite": name, "why": why, "sites": []}
        k2 = close(k1 + m2.end())
        g = text[k1 + m2.end():k2 - 1].strip()
        m3 = re.match(r"\s*\.\s*collect\(\)", text[k2:])
        if not m3:
            return text, {"rewrite": name, "why": why, "sites": []}
        new = f"filter_map_map_collect(&{recv}, {f}, {g})"
        return text[:rs] + new + text[k2 + m3.end():], {"rewrite": name, "why": why, "sites": [{"from": text[rs:rs + 100] + " ...", "to": new[:100]}]}
    if spec[0] == "chain_fm":
        _, method, fname, why = spec
        by_value = method == "skip_while"
        pat = re.compile(r"\.\s*" + ("into_iter" if by_value else "iter") + r"\(\)\s*\.\s*" + method + r"\s*\(")
        out, sites, pos = text, [], 0
        while True:
            m = pat.search(out, pos)
            if not m:
                break
            dot = m.start()
            rs = _postfix_chain_start(out, dot)
            recv = re.sub(r"\s+", "", out[rs:dot])
            depth, k = 1, m.end()
            while depth:
                if out[k] in "([{":
                    depth += 1
                elif out[k] in ")]}":
                    depth -= 1
                k += 1
            clo = out[m.end():k - 1].strip()
            new = f"{fname}(&{recv}, {clo})"
            sites.append({"from": out[rs:k][:120], "to": new[:120]})
            out = out[:rs] + new + out[k:]
            pos = rs + 10
        return out, {"rewrite": name, "why": why, "sites": sites}
    if spec[0] == "opt_or_else":
        why = spec[3]
        m = re.search(r"\.\s*or_else\s*\(\s*\|\|\s*", text)
        if not m:
            return text, {"rewrite": name, "why": why, "sites": []}
        dot = m.start()
        rs = _postfix_chain_start(text, dot)
        recv = text[rs:dot].strip()
        op = text.index("(", dot)
        depth, k = 1, op + 1
        while depth:
            if text[k] in "([{":
                depth += 1
            elif text[k] in ")]}":
                depth -= 1
            k += 1
        body = text[m.end():k - 1].strip()
        new = f"(match {recv} {{ Some(v_) => Some(v_), None => {body} }})"
        return text[:rs] + new + text[k:], {"rewrite": name, "why": why, "sites": [{"from": text[rs:k][:120], "to": new[:120]}]}
    if spec[0] == "chain_fmc2":
        _, method, fname, why = spec
        by_value = method in ("skip_while", "partition")
        pat = re.compile(r"\.\s*" + ("into_iter" if by_value else "iter") + r"\(\)\s*\.\s*" + method + r"\s*\(")
        out, sites, pos = text, [], 0
        while True:
            m = pat.search(out, pos)
            if not m:
                break
            dot = m.start()
            rs = _postfix_chain_start(out, dot)
            recv = re.sub(r"\s+", "", out[rs:dot])
            depth, k = 1, m.end()
            while depth:
                if out[k] in "([{":
                    depth += 1
                elif out[k] in ")]}":
                    depth -= 1
                k += 1
            clo = out[m.end():k - 1].strip()
            tail = re.match(r"\s*\.\s*collect\(\)" if method not in ("partition", "find") else r"", out[k:])
            if not tail:
                pos = k
                continue
            new = f"{fname}({'' if by_value else '&'}{recv}, {clo})"
            sites.append({"from": out[rs:k + tail.end()][:120], "to": new[:120]})
            out = out[:rs] + new + out[k + tail.end():]
            pos = rs + 10
        return out, {"rewrite": name, "why": why, "sites": sites}
    if spec[0] == "chain_fmc":
        why = spec[3]
        pat = re.compile(r"\.\s*iter\(\)\s*\.\s*flat_map\s*\(")
        out, sites, pos = text, [], 0
        while True:
            m = pat.search(out, pos)
            if not m:
                break
            dot = m.start()
            rs = _postfix_chain_start(out, dot)
            recv = re.sub(r"\s+", "", out[rs:dot])
            depth, k = 1, m.end()
            while depth:
                if out[k] in "([{":
                    depth += 1
                elif out[k] in ")]}":
                    depth -= 1
                k += 1
            clo = out[m.end():k - 1].strip()
            tail = re.match(r"\s*\.\s*collect\(\)", out[k:])
            if not tail:
                pos = k
                continue
            new = f"flat_map_collect(&{recv}, {clo})"
            sites.append({"from": out[rs:k + tail.end()][:120], "to": new[:120]})
            out = out[:rs] + new + out[k + tail.end():]
            pos = rs + 10
        return out, {"rewrite": name, "why": why, "sites": sites}
    if spec[0] == "opt_map_or":
        why = spec[3]
        is_else = spec[1] == "else"
        pat = re.compile(r"\.\s*map_or_else\s*\(" if is_else else r"\.\s*map_or\s*\(")
        out, sites, pos = text, [], 0
        while True:
            m = pat.search(out, pos)
            if not m:
                break
            dot = m.start()
            rs = _postfix_chain_start(out, dot)
            recv = out[rs:dot].strip()
            depth, k = 1, m.end()
            while depth:
                if out[k] in "([{":
                    depth += 1
                elif out[k] in ")]}":
                    depth -= 1
                k += 1
            args = out[m.end():k - 1]
            # split default , |x| body   at the first top-level comma
            depth, c = 0, 0
            while not (args[c] == "," and depth == 0):
                if args[c] in "([{":
                    depth += 1
                elif args[c] in ")]}":
                    depth -= 1
                c += 1
            default, clo = args[:c].strip(), args[c + 1:].strip().rstrip(",").strip()
            cm = re.match(r"\|\s*(\w+|\([\w\s,]+\))\s*\|\s*(.*)$", clo, re.S)
            if not cm:
                pos = k
                continue
            new = f"match {recv} {{ Some({cm.group(1)}) => {cm.group(2)}, None => {default + '()' if is_else else default} }}"
            sites.append({"from": out[rs:k][:100], "to": new[:100]})
            out = out[:rs] + new + out[k:]
            pos = rs + 6
        return out, {"rewrite": name, "why": why, "sites": sites}
    if spec[0] == "map_or_else_some":
        why = spec[3]
        m = re.search(r"\.\s*map_or_else\s*\(", text)
        if not m:
            return text, {"rewrite": name, "why": why, "sites": []}
        dot = m.start()
        rs = _postfix_chain_start(text, dot)
        recv = text[rs:dot].strip()
        depth, k = 1, m.end()
        while depth:
            if text[k] in "([{":
                depth += 1
            elif text[k] in ")]}":
                depth -= 1
            k += 1
        args = text[m.end():k - 1].strip().rstrip(",").strip()
        am = re.match(r"(?s)\|\|\s*(\{.*\})\s*,\s*Some$", args)
        if not am:
            return text, {"rewrite": name, "why": why, "sites": []}
        new = f"(match {recv} {{ Some(v_) => Some(v_), None => {am.group(1)} }})"
        return text[:rs] + new + text[k:], {"rewrite": name, "why": why, "sites": [{"from": text[rs:k][:120], "to": new[:120]}]}
    raise LostAnchor(f"rewrite kind {spec[0]}")


# ----------------------------------------------------------------------------------------------
def read_repo(path):
    with open(os.path.join(REPO, path), encoding="utf-8") as f:
        return f.read()


def parse_seg(seg):
    seg = seg.strip()
    for k in ("fn", "struct", "enum", "trait", "const", "type"):
        if seg.startswith(k + " "):
            return (k, seg[len(k) + 1:].strip())
    if seg.startswith("impl ") or seg.startswith("impl<"):
        return ("impl", rscan.norm(seg[4:]))
    if seg.startswith("letexpr "):
        return ("letexpr", seg[len("letexpr "):].strip())
    if seg.startswith("loopbody "):
        return ("loopbody", seg[len("loopbody "):].strip())
    if seg.startswith("tailfrom "):
        return ("tailfrom", seg[len("tailfrom "):].strip())
    if seg.startswith("iflet "):
        return ("iflet", seg[len("iflet "):].strip())
    if seg.startswith("letblock "):
        return ("letblock", seg[len("letblock "):].strip())
    if seg.startswith("derive "):
        return ("derive", seg[len("derive "):].strip())
    if seg.startswith("closure "):
        p = seg[len("closure "):].strip()
        nth = re.match(r"^(\|.*\|)\s+nth\s+(\d+)\s+of\s+(\d+)$", p)
        if nth:
            return ("closure", (rscan.norm(nth.group(1)[1:-1]), int(nth.group(2)), int(nth.group(3))))
        if not (p.startswith("|") and p.endswith("|")):
            raise LostAnchor(f"bad closure segment {seg}")
        return ("closure", rscan.norm(p[1:-1]))
    raise LostAnchor(f"bad path segment {seg!r}")


class Resolved:
    pass


def resolve(file, segs):
    src = read_repo(file)
    toks = rscan.tokenize(src)
    lo, hi = 0, len(toks)
    chain = []
    item = None
    for n, (kind, name) in enumerate(segs):
        if kind == "letexpr":
            # `let NAME [: T] = <expr>;` — the initialiser expression is lifted like a closure body (R6)
            found = []
            for x in range(lo, hi - 1):
                if toks[x].kind == "id" and toks[x].text == "let" and toks[x + 1].text == name:
                    y = x + 2
                    while y < hi and toks[y].text != "=":
                        y = toks[y].mate + 1 if toks[y].kind == "open" else y + 1
                    z = y + 1
                    while z < hi and toks[z].text != ";":
                        z = toks[z].mate + 1 if toks[z].kind == "open" else z + 1
                    found.append((x, y, y + 1, z - 1, False))
            if len(found) != 1:
                raise LostAnchor(f"{file} :: letexpr {name} resolves {len(found)} times")
            r = Resolved()
            r.src, r.toks, r.closure = src, toks, found[0]
            r.chain = chain
            r.kind = "closure"
            return r
        if kind == "tailfrom":
            # the statements from `let NAME` to the end of the enclosing fn body (its tail expression included) are lifted like a closure body (R6)
            found, x = [], lo
            while x < hi - 1:   # statements of the fn body itself, not of nested blocks or items
                if toks[x].kind == "open":
                    x = toks[x].mate + 1
                    continue
                if toks[x].kind == "id" and toks[x].text == "let" and toks[x + 1].text == name:
                    found.append(x)
                x += 1
            if len(found) != 1:
                raise LostAnchor(f"{file} :: tailfrom {name} resolves {len(found)} times")
            r = Resolved()
            r.src, r.toks, r.closure = src, toks, (found[0], found[0] + 1, found[0], hi - 1, False)
            r.chain = chain
            r.kind = "closure"
            return r
        if kind == "iflet":
            # `if let Some(NAME) = <expr> { BODY } REST…` at statement level of the fn body: what runs once NAME is bound, i.e. the block followed by
            # the remaining statements of the function, is lifted like a closure body (R6); the scrutinee (here: an `.await`) stays behind
            found, x = [], lo
            while x < hi - 4:
                if toks[x].kind == "open":
                    x = toks[x].mate + 1
                    continue
                if toks[x].text == "if" and toks[x + 1].text == "let" and toks[x + 2].text == "Some" and toks[x + 3].kind == "open" and toks[x + 4].text == name:
                    y = toks[x + 3].mate + 1
                    while y < hi and not (toks[y].kind == "open" and toks[y].text == "{"):
                        y = toks[y].mate + 1 if toks[y].kind == "open" else y + 1
                    found.append((x, y - 1, y, hi - 1, False))
                x += 1
            if len(found) != 1:
                raise LostAnchor(f"{file} :: iflet {name} resolves {len(found)} times")
            r = Resolved()
            r.src, r.toks, r.closure = src, toks, found[0]
            r.chain = chain
            r.kind = "closure"
            return r
        if kind == "loopbody":
            # body block of the k-th loop statement in the region (R6: the loop header is dropped, the body is lifted)
            loops = [x for x in range(lo, hi) if toks[x].kind == "id" and toks[x].text in ("for", "while", "loop") and not (x > 0 and toks[x - 1].text in (".", "::"))]
            k = int(name)
            if k >= len(loops):
                raise LostAnchor(f"{file} :: loopbody {k}: only {len(loops)} loops")
            x = loops[k] + 1
            while not (toks[x].kind == "open" and toks[x].text == "{"):
                x = toks[x].mate + 1 if toks[x].kind == "open" else x + 1
            r = Resolved()
            r.src, r.toks, r.closure = src, toks, (loops[k], x - 1, x, toks[x].mate, True)
            r.chain = chain
            r.kind = "closure"
            return r
        if kind == "letblock":
            # `let NAME [: T] = { ... };`  — the block is lifted like a closure body (R6)
            found = []
            for x in range(lo, hi - 1):
                if toks[x].kind == "id" and toks[x].text == "let" and toks[x + 1].text == name:
                    y = x + 2
                    while y < hi and toks[y].text != "=":
                        y = toks[y].mate + 1 if toks[y].kind == "open" else y + 1
                    if y + 1 < hi and toks[y + 1].kind == "open" and toks[y + 1].text == "{":
                        found.append((x, y, y + 1, toks[y + 1].mate, True))
            if len(found) != 1:
                raise LostAnchor(f"{file} :: letblock {name} resolves {len(found)} times")
            r = Resolved()
            r.src, r.toks, r.closure = src, toks, found[0]
            r.chain = chain
            r.kind = "closure"
            return r
        if kind == "closure":
            cname, ck, cn = name if isinstance(name, tuple) else (name, 0, 1)
            found = rscan.find_closures(src, toks, lo, hi, cname)
            if len(found) != cn:
                raise LostAnchor(f"{file} :: closure |{cname}| resolves {len(found)} times, expected {cn}")
            r = Resolved()
            r.src, r.toks, r.closure = src, toks, found[ck]
            r.chain = chain
            r.kind = "closure"
            return r
        depth0 = (n == 0) or (chain and chain[-1].kind in ("impl", "trait"))
        found = rscan.find_items(src, toks, lo, hi, kind, name, depth0_only=depth0)
        if len(found) != 1:
            raise LostAnchor(f"{file} :: {kind} {name} resolves {len(found)} times")
        item = found[0]
        chain.append(item)
        if item.body_open is not None:
            lo, hi = item.body_open + 1, item.body_close
    r = Resolved()
    r.src, r.toks, r.item, r.chain = src, toks, item, chain
    r.kind = item.kind
    return r


def fn_in_text(text, fname):
    """locate fn `fname` (or the only fn) inside item text; returns (toks, item)"""
    toks = rscan.tokenize(text)
    if fname is None:
        cands = [i for i, t in enumerate(toks) if t.kind == "id" and t.text == "fn" and i + 1 < len(toks) and toks[i + 1].kind == "id"]
        # outermost first
        if not cands:
            raise LostAnchor("no fn in item")
        it = rscan.make_item(text, toks, cands[0], 0, len(toks))
        return toks, it
    found = rscan.find_items(text, toks, 0, len(toks), "fn", fname)
    if len(found) != 1:
        raise LostAnchor(f"fn {fname} resolves {len(found)} times inside extracted item")
    return toks, found[0]


PANIC_PATTERNS = [
    ("expect", r"\.expect\("), ("unwrap", r"\.unwrap\(\)"), ("index", r"[\w\)\]]\["),
    ("sub", r"[\w\)\]]\s-\s"), ("add", r"[\w\)\]]\s\+\s|\+="), ("assert", r"\bassert(_eq|_ne)?!"), ("panic", r"\bpanic!|unreachable!|unimplemented!"),
]


def panic_sites(text):
    # comments/strings stripped roughly by tokenising and re-joining
    body = " ".join(t.text if t.kind != "str" else '""' for t in rscan.tokenize(text))
    return {k: len(re.findall(p, body)) for k, p in PANIC_PATTERNS if re.findall(p, body)}


def derive_impl(item_text, trait, name):
    """what spl_frontend_macros generates for #[derive(ToRange)] / #[derive(ToTextRange)] on this struct/enum"""
    toks = rscan.tokenize(item_text)
    # the derive attribute must really be there
    dm = re.search(r"#\[derive\(([^\]]*)\)\]", item_text)
    if not dm or trait not in [x.strip() for x in dm.group(1).split(",")]:
        raise LostAnchor(f"{name} does not derive {trait}")
    kw = next(i for i, t in enumerate(toks) if t.kind == "id" and t.text in ("struct", "enum"))
    call = {"ToRange": "info.to_range()", "ToTextRange": "info.to_text_range(tokens)"}[trait]
    sig = {"ToRange": "fn to_range(&self) -> std::ops::Range<usize>", "ToTextRange": "fn to_text_range(&self, tokens: &[Token]) -> std::ops::Range<usize>"}[trait]
    if toks[kw].text == "struct":
        body = "        self." + call
    else:
        bo = next(i for i in range(kw, len(toks)) if toks[i].kind == "open" and toks[i].text == "{")
        bc = toks[bo].mate
        arms = []
        i = bo + 1
        while i < bc:
            t = toks[i]
            if t.text == "#":
                i = toks[i + 1].mate + 1
                continue
            if t.kind == "id":
                vname = t.text
                nxt = toks[i + 1]
                if nxt.kind == "open" and nxt.text == "(":
                    inner = [x for x in range(i + 2, nxt.mate) if toks[x].text == "," and True]
                    arms.append(f"            Self::{vname}(info) => {call},")
                    i = nxt.mate + 1
                elif nxt.kind == "open" and nxt.text == "{":
                    arms.append(f"            Self::{vname} {{ info, .. }} => {call},")
                    i = nxt.mate + 1
                else:
                    raise LostAnchor(f"derive({trait}) is not defined for unit variant {vname}")
                if i < bc and toks[i].text == ",":
                    i += 1
                continue
            i += 1
        body = "        match self {\n" + "\n".join(arms) + "\n        }"
    return f"impl {trait} for {name} {{\n    {sig} {{\n{body}\n    }}\n}}"


def count_loops(text):
    """loop statements in a piece of Rust text (`for` of an impl header or a HRTB does not count)"""
    t = rscan.tokenize(text)
    n = 0
    for x in range(len(t)):
        if t[x].kind != "id" or t[x].text not in ("for", "while", "loop"):
            continue
        if x > 0 and t[x - 1].text in (".", "::"):
            continue
        if t[x].text == "for":
            # a for loop has `in` before its body
            y, ok = x + 1, False
            while y < len(t):
                if t[y].kind == "open":
                    if t[y].text == "{":
                        break
                    y = t[y].mate + 1
                    continue
                if t[y].kind == "id" and t[y].text == "in":
                    ok = True
                    break
                if t[y].text == ";":
                    break
                y += 1
            if not ok:
                continue
        n += 1
    return n


class Block:
    def __init__(self, file, path, tline):
        self.file, self.path, self.tline = file, path, tline
        self.subs = []   # (directive, arg, payload_lines, tline)


def process_template(tpath, out_lines, meta, origin_stack=None):
    with open(tpath, encoding="utf-8") as f:
        lines = f.read().split("\n")
    i = 0
    rel = os.path.relpath(tpath, os.path.dirname(CONTRACTS))
    while i < len(lines):
        ln = lines[i]
        s = ln.strip()
        if s.startswith("//@include "):
            inc = os.path.join(CONTRACTS, s[len("//@include "):].strip())
            if inc in meta["includes"]:
                i += 1
                continue
            meta["includes"].append(inc)
            process_template(inc, out_lines, meta)
            i += 1
            continue
        if s.startswith("//@premise "):
            # a stated premise about code that stays outside the verifier: `<file> :: <item path> contains "<text>"`.
            # Nothing is emitted; if the text is no longer there the unit is undecided (never an alarm).
            pm = re.match(r'//@premise\s+(.*?)\s+contains\s+"(.*)"\s*$', s)
            if not pm:
                raise LostAnchor(f"{rel}:{i+1}: bad premise directive")
            pparts = [p.strip() for p in pm.group(1).split(" :: ")]
            r = resolve(pparts[0], [parse_seg(p) for p in pparts[1:]])
            want = rscan.norm(pm.group(2).encode().decode("unicode_escape"))
            have = rscan.norm(r.src[r.item.start:r.item.end])
            if want not in have:
                raise LostAnchor(f"{rel}:{i+1}: premise no longer holds: {pm.group(1)} does not contain {pm.group(2)!r}")
            meta.setdefault("premises", []).append({"where": pm.group(1), "contains": pm.group(2)})
            i += 1
            continue
        if s.startswith("//@extract "):
            spec = s[len("//@extract "):]
            parts = [p.strip() for p in spec.split(" :: ")]
            blk = Block(parts[0], parts[1:], i + 1)
            i += 1
            cur = None
            while i < len(lines) and lines[i].strip() != "//@end":
                t = lines[i].strip()
                if t.startswith("//@"):
                    d = t[3:].strip()
                    m = re.match(r"(\w+)\s*(.*)", d)
                    cur = [m.group(1), m.group(2), [], i + 1]
                    blk.subs.append(cur)
                else:
                    if cur is None:
                        raise LostAnchor(f"{rel}:{i+1}: payload without directive")
                    cur[2].append((lines[i], i + 1))
                i += 1
            if i >= len(lines):
                raise LostAnchor(f"{rel}: //@extract without //@end")
            i += 1
            emit_block(blk, rel, out_lines, meta)
            continue
        # ordinary template line
        m = re.search(r"//#\s*([\w:\.\-]+)\s*$", ln)
        if m:
            meta["labels"][len(out_lines) + 1] = m.group(1)
        out_lines.append(ln)
        meta["origin"].append(f"{rel}:{i+1}")
        i += 1


def emit_block(blk, rel, out_lines, meta):
    segs = [parse_seg(p) for p in blk.path]
    derive = None
    if segs and segs[0][0] == "derive":
        derive = segs[0][1]
        segs = segs[1:]
    r = resolve(blk.file, segs)
    src = r.src
    record = {"file": blk.file, "path": " :: ".join(blk.path), "rewrites": [], "insertions": 0}
    lift = None
    vis_keep = False
    for d, arg, payload, tl in blk.subs:
        if d == "lift":
            lift = (arg + " " + " ".join(p[0].strip() for p in payload)).strip()
        if d == "vis" and arg.strip() == "keep":
            vis_keep = True
    wrap_head = None
    if r.kind == "closure":
        bo, bc, bf, bl, is_block = r.closure
        s, e = r.toks[bf].start, r.toks[bl].end
        text = src[s:e]
        record["src_span"] = [src.count("\n", 0, r.toks[bo].start) + 1, src.count("\n", 0, e) + 1]
        record["closure_params"] = src[r.toks[bo].start:r.toks[bc].end]
        if lift is None:
            raise LostAnchor(f"{rel}:{blk.tline}: closure needs //@ lift <signature>")
        record["sha256"] = hashlib.sha256(src[r.toks[bo].start:e].encode()).hexdigest()
        body_is_block = is_block
    else:
        it = r.item
        s, e = it.start, it.end
        text = src[s:e]
        record["src_span"] = [src.count("\n", 0, s) + 1, src.count("\n", 0, e) + 1]
        record["sha256"] = hashlib.sha256(text.encode()).hexdigest()
        if len(r.chain) >= 2 and r.chain[-2].kind in ("impl", "trait") and it.kind in ("fn", "const", "type"):
            outer = r.chain[-2]
            wrap_head = src[r.toks[outer.head_tok].start:r.toks[outer.body_open].start].strip()
            if outer.kind == "trait":
                raise LostAnchor("extract a trait as a whole")
    if derive is not None:
        text = derive_impl(text, derive, r.item.name)
        record["rewrites"].append({"rewrite": "R5 derive expansion", "why": f"#[derive({derive})] expanded as spl_frontend_macros generates it (proc-macro output is invisible to a text extractor)", "sites": [{"to": text}]})
        r.kind = "impl"
        wrap_head = None
    source_text = text
    record["panic_sites"] = panic_sites(text) if r.kind in ("fn", "closure", "impl") else {}

    # ---- rewrites
    if any(d == "rewrite" for d, _a, _p, _t in blk.subs):
        # R0: a comment-only line between two segments of a method chain (`x\n  // note\n  .f()`) is dropped before the chain rewrites
        # look at the text; comments are not tokens, so the self-check is unaffected
        _cm = re.compile(r"\n[ \t]*//(?!@|#|~)[^\n]*(?=\n[ \t]*\.)")
        _n = len(_cm.findall(text))
        if _n:
            text = _cm.sub("", text)
            record["rewrites"].append({"rewrite": "R0 chain comments", "why": "comment-only lines inside a method chain dropped (no tokens)", "sites": [{"count": _n}]})
    for d, arg, payload, tl in blk.subs:
        if d == "rewrite":
            for name in arg.split():
                text, log = apply_rewrite(name, text)
                record["rewrites"].append(log)
        if d == "rename":
            old_n, new_n = arg.split()
            cnt = len(re.findall(r"\b" + re.escape(old_n) + r"\b", text))
            text = re.sub(r"\b" + re.escape(old_n) + r"\b", new_n, text)
            record["rewrites"].append({"rewrite": "rename", "why": "two nested functions of the same name end up in one file: the item and its self-calls get a qualifying name", "sites": [{"from": old_n, "to": new_n, "count": cnt}]})
    # body dropped: the fn keeps its signature and contract, the body is not part of this unit
    for d, arg, payload, tl in blk.subs:
        if d == "assume_body":
            m = re.match(r"fn\s+(\w+)", arg.strip())
            toks_, fit_ = fn_in_text(text, m.group(1) if m else None)
            bs, be = toks_[fit_.body_open].start, toks_[fit_.body_close].end
            record["rewrites"].append({"rewrite": "assume_body", "why": "contract used by callers in this unit; the body is verified in another unit (see assumptions)", "sites": [{"from": text[bs:be][:80] + "..."}]})
            text = text[:fit_.start] + "#[verifier::external_body]\n    " + text[fit_.start:bs] + "{ unimplemented!() }" + text[be:]
    # R2 visibility
    if r.kind != "closure" and not vis_keep and r.kind in ("fn", "struct", "enum", "trait", "const", "type") and not (len(r.chain) >= 2 and "for" in r.chain[-2].name.split() and r.chain[-2].kind == "impl"):
        toks = rscan.tokenize(text)
        # first non-attribute token
        k = 0
        while toks[k].text == "#":
            k = toks[k + 1].mate + 1
        if toks[k].text == "pub":
            if toks[k + 1].text == "(":
                endp = toks[toks[k + 1].mate].end
                record["rewrites"].append({"rewrite": "R2 visibility", "sites": [{"from": text[toks[k].start:endp], "to": "pub"}]})
                text = text[:toks[k].start] + "pub" + text[endp:]
        else:
            record["rewrites"].append({"rewrite": "R2 visibility", "sites": [{"from": "(private)", "to": "pub"}]})
            text = text[:toks[k].start] + "pub " + text[toks[k].start:]
    rewritten = text
    record["loops"] = count_loops(text)
    record["loops_annotated"] = sum(1 for d_, a_, p_, t_ in blk.subs if d_ == "loop")
    # ---- insertions: list of (offset, text, order)
    ins = []
    label_at = []   # (offset, index in payload text lines)

    def payload_text(payload):
        return "\n".join(p[0] for p in payload)

    # `$CLOSURE(|params| k/n)` in a payload line stands for the body expression of that closure as written in the code, so that a
    # specification closure handed to an iterator shim says what the code says and the obligations are stated about *it*
    def closure_body(m):
        toks_c = rscan.tokenize(text)
        found_c = rscan.find_closures(text, toks_c, 0, len(toks_c), rscan.norm(m.group(1)))
        if len(found_c) != int(m.group(3)):
            raise LostAnchor(f"{rel}: closure |{m.group(1)}| occurs {len(found_c)} times in {record['path']}, expected {m.group(3)}")
        bo_c, bc_c, bf_c, bl_c, blk_c = found_c[int(m.group(2))]
        return "(" + text[toks_c[bf_c].start:toks_c[bl_c].end] + ")"
    for sub in blk.subs:
        sub[2][:] = [(re.sub(r"\$CLOSURE\(\|(.*?)\|\s*(\d+)/(\d+)\)", closure_body, pl_), tl_) for pl_, tl_ in sub[2]]
    for order, (d, arg, payload, tl) in enumerate(blk.subs):
        if d in ("rewrite", "lift", "vis", "assume_body", "rename"):
            continue
        if r.kind == "closure" and d not in ("before", "after", "loop", "at_end", "closure", "after_closure"):
            if d == "sig":
                # contract of the lifted function goes after the lifted signature
                ins.append((-1, payload, order))
                continue
            raise LostAnchor(f"{rel}:{tl}: directive {d} not valid for closures")
        m = re.match(r"(.*?)(?:\bfn\s+(\w+))?\s*$", arg)
        fname = m.group(2) if m else None
        head = (m.group(1) if m else arg).strip()
        if d == "ret":
            toks, fit = fn_in_text(text, fname)
            # find '->' at depth 0 between fn keyword and body/semi
            j = fit.head_tok
            end_tok = fit.body_open if fit.body_open is not None else fit.last_tok
            arrow = None
            k = j
            while k < end_tok:
                if toks[k].kind == "open":
                    k = toks[k].mate + 1
                    continue
                if toks[k].text == "->":
                    arrow = k
                    break
                k += 1
            if arrow is None:
                raise LostAnchor(f"{rel}:{tl}: fn has no return type to name")
            # return type ends before `where`, `{` or `;` at depth 0
            k = arrow + 1
            while k < end_tok:
                if toks[k].kind == "open":
                    if toks[k].text == "{":
                        break
                    k = toks[k].mate + 1
                    continue
                if toks[k].text == "where":
                    break
                k += 1
            ins.append((toks[arrow + 1].start, [(f"({head}: ", tl)], order, "inline"))
            ins.append((toks[k - 1].end, [(")", tl)], order, "inline"))
        elif d == "sig":
            toks, fit = fn_in_text(text, fname)
            pos = toks[fit.body_open].start if fit.body_open is not None else toks[fit.last_tok].start
            ins.append((pos, payload, order))
        elif d == "attr" and fname is None and r.kind in ("struct", "enum", "trait"):
            ins.append((0, payload, order))
        elif d == "attr":
            toks, fit = fn_in_text(text, fname)
            ins.append((fit.start, payload, order))
        elif d == "open":
            toks = rscan.tokenize(text)
            k = 0
            while not (toks[k].kind == "open" and toks[k].text == "{"):
                k = toks[k].mate + 1 if toks[k].kind == "open" else k + 1
            ins.append((toks[k].end, payload, order))
        elif d in ("before", "after"):
            am = re.match(r'"(.*)"(?:\s+nth\s+(\d+)\s+of\s+(\d+))?\s*$', arg)
            if not am:
                raise LostAnchor(f"{rel}:{tl}: anchor must be quoted")
            anchor = am.group(1).replace("\\n", "\n")
            cnt = text.count(anchor)
            want = int(am.group(3)) if am.group(3) else 1
            if cnt != want:
                raise LostAnchor(f"{rel}:{tl}: anchor {anchor!r} occurs {cnt} times in {record['path']}, expected {want}")
            nth = int(am.group(2)) if am.group(2) else 0
            pos = -1
            for _ in range(nth + 1):
                pos = text.index(anchor, pos + 1)
            pos = pos + (len(anchor) if d == "after" else 0)
            ins.append((pos, payload, order))
        elif d == "closure":
            # //@ closure |params| [nth K of N] : <type of the single parameter>
            cm = re.match(r"\|(.*?)\|\s*(?:nth\s+(\d+)\s+of\s+(\d+)\s*)?(?::\s*(.*))?$", arg.strip())
            if not cm:
                raise LostAnchor(f"{rel}:{tl}: bad closure directive")
            toks = rscan.tokenize(text)
            found = rscan.find_closures(text, toks, 0, len(toks), rscan.norm(cm.group(1)))
            want = int(cm.group(3)) if cm.group(3) else 1
            if len(found) != want:
                raise LostAnchor(f"{rel}:{tl}: closure |{cm.group(1)}| occurs {len(found)} times in {record['path']}, expected {want}")
            bo, bc, bf, bl, is_block = found[int(cm.group(2)) if cm.group(2) else 0]
            if cm.group(4):
                ins.append((toks[bc].start, [(": " + cm.group(4).strip(), tl)], order, "inline"))
            if is_block:
                ins.append((toks[bf].start, payload, order))
            else:
                ins.append((toks[bf].start, payload + [("{", tl)], order))
                ins.append((toks[bl].end, [(" }", tl)], order, "inline"))
        elif d == "at_end" and fname is not None:
            toks, fit = fn_in_text(text, fname)
            ins.append((toks[fit.body_close].start, payload, order))
        elif d == "at_end":
            pos_e = text.rstrip().rfind("}")
            if pos_e < 0:
                raise LostAnchor(f"{rel}:{tl}: item has no closing brace")
            ins.append((pos_e, payload, order))
        elif d == "after_closure":
            cm = re.match(r"\|(.*?)\|\s*(?:nth\s+(\d+)\s+of\s+(\d+)\s*)?$", arg.strip())
            if not cm:
                raise LostAnchor(f"{rel}:{tl}: bad after_closure directive")
            toks = rscan.tokenize(text)
            found = rscan.find_closures(text, toks, 0, len(toks), rscan.norm(cm.group(1)))
            want = int(cm.group(3)) if cm.group(3) else 1
            if len(found) != want:
                raise LostAnchor(f"{rel}:{tl}: closure |{cm.group(1)}| occurs {len(found)} times in {record['path']}, expected {want}")
            bo, bc, bf, bl, is_block = found[int(cm.group(2)) if cm.group(2) else 0]
            ins.append((toks[bl].end, [(p_[0], p_[1]) for p_ in payload], order + 1000, "inline"))
        elif d == "loop":
            k_s = head.split()[0] if head else "0"
            if r.kind == "closure":
                toks = rscan.tokenize(text)
                lo_t, hi_t = 0, len(toks)
            else:
                toks, fit = fn_in_text(text, fname)
                lo_t, hi_t = fit.body_open, fit.body_close
            loops = [x for x in range(lo_t, hi_t) if toks[x].kind == "id" and toks[x].text in ("for", "while", "loop") and not (x > 0 and toks[x - 1].text in (".", "::"))]
            kk = int(k_s)
            if kk >= len(loops):
                raise LostAnchor(f"{rel}:{tl}: loop {kk} not found")
            x = loops[kk] + 1
            while not (toks[x].kind == "open" and toks[x].text == "{"):
                x = toks[x].mate + 1 if toks[x].kind == "open" else x + 1
            ins.append((toks[x].start, payload, order))
        else:
            raise LostAnchor(f"{rel}:{tl}: unknown directive {d}")
    # ---- splice
    pieces = []   # (text, is_inserted, payload or None)
    lift_sig_payload = [x for x in ins if x[0] == -1]
    ins = sorted([x for x in ins if x[0] != -1], key=lambda x: (x[0], x[2]))
    pos = 0
    for x in ins:
        off, payload = x[0], x[1]
        inline = len(x) > 3
        pieces.append((text[pos:off], False, None))
        if inline:
            pieces.append((" ".join(pl_[0].strip() for pl_ in payload) if len(payload) > 1 else payload[0][0], True, None))
        else:
            pieces.append(("\n", True, None))
            for pl, tl in payload:
                pieces.append((pl + "\n", True, tl))
        pos = off
    pieces.append((text[pos:], False, None))
    stripped = "".join(p[0] for p in pieces if not p[1])
    record["verbatim"] = (stripped == rewritten)
    if not record["verbatim"]:
        raise LostAnchor(f"self-check failed for {record['path']}")
    record["insertions"] = sum(1 for p in pieces if p[1] and p[2] is not None)
    # ---- emit
    gen_start = len(out_lines) + 1
    buf = []   # list of (line text, origin)

    def add_text(t, origin):
        # append possibly multi-line text, tracking origin per line
        parts = t.split("\n")
        for n, part in enumerate(parts):
            if n == 0 and buf and not buf[-1][2]:
                buf[-1][0] += part
            else:
                buf.append([part, origin, False])
            if n < len(parts) - 1:
                buf[-1][2] = True   # line closed
        return

    src_line0 = record["src_span"][0]
    add_text(f"// ---- extracted: {blk.file} :: {record['path']}  (lines {record['src_span'][0]}-{record['src_span'][1]})\n", f"{rel}:{blk.tline}")
    if wrap_head:
        add_text(wrap_head + " {\n", f"{rel}:{blk.tline}")
    if r.kind == "closure":
        add_text(lift + "\n", f"{rel}:{blk.tline}")
        for x in lift_sig_payload:
            for pl, tl in x[1]:
                add_text(pl + "\n", f"{rel}:{tl}")
        if not body_is_block:
            add_text("{\n", f"{rel}:{blk.tline}")
    consumed_src = 0
    for t, is_ins, tl in pieces:
        if is_ins:
            add_text(t, f"{rel}:{tl}" if tl else f"{rel}:{blk.tline}")
        else:
            add_text(t, f"{blk.file}:{src_line0 + source_text.count(chr(10), 0, 0)}")
    add_text("\n", f"{rel}:{blk.tline}")
    if r.kind == "closure" and not body_is_block:
        add_text("}\n", f"{rel}:{blk.tline}")
    if wrap_head:
        add_text("}\n", f"{rel}:{blk.tline}")
    for line, origin, _ in buf:
        m = re.search(r"//#\s*([\w:\.\-]+)\s*$", line)
        if m:
            meta["labels"][len(out_lines) + 1] = m.group(1)
        out_lines.append(line)
        meta["origin"].append(origin)
    record["gen_span"] = [gen_start, len(out_lines)]
    meta["items"].append(record)


def generate(unit_template, out_path):
    meta = {"template": unit_template, "items": [], "labels": {}, "origin": [], "includes": []}
    out_lines = []
    process_template(unit_template, out_lines, meta)
    text = "\n".join(out_lines) + "\n"
    os.makedirs(os.path.dirname(out_path), exist_ok=True)
    with open(out_path, "w", encoding="utf-8") as f:
        f.write(text)
    # function spans in the generated file: line -> qualified fn name
    toks = rscan.tokenize(text)
    fns = []
    for i, t in enumerate(toks):
        if t.kind == "id" and t.text == "fn" and i + 1 < len(toks) and toks[i + 1].kind == "id":
            try:
                it = rscan.make_item(text, toks, i, 0, len(toks))
            except rscan.ScanError:
                continue
            # mode: look back for spec/proof
            mode = "exec"
            k = i - 1
            while k >= 0 and toks[k].kind == "id" and toks[k].text in ("pub", "open", "closed", "spec", "proof", "const", "uninterp", "broadcast", "exec"):
                if toks[k].text in ("spec", "proof"):
                    mode = toks[k].text
                k -= 1
            l0 = text.count("\n", 0, t.start) + 1
            l1 = text.count("\n", 0, it.end) + 1
            fns.append({"name": toks[i + 1].text, "mode": mode, "lines": [l0, l1], "has_body": it.body_open is not None})
    meta["fns"] = fns
    meta["labels"] = {str(k): v for k, v in meta["labels"].items()}
    with open(out_path + ".map.json", "w") as f:
        json.dump(meta, f, indent=1)
    return meta


if __name__ == "__main__":
    try:
        m = generate(sys.argv[1], sys.argv[2])
        print(f"generated {sys.argv[2]}: {len(m['items'])} items, {len(m['labels'])} labelled clauses")
    except (LostAnchor, rscan.ScanError, FileNotFoundError) as ex:
        print(f"LOST-ANCHOR: {ex}", file=sys.stderr)
        sys.exit(2)
