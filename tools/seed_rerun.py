#!/usr/bin/env python3
"""Re-run the registered checks against every stored seed (apply to /repo, run, undo) and refresh seeded/<id>/meta.json."""
import json, os, subprocess, sys, time
os.environ["VERIF_EVIDENCE_DIR"] = os.path.join(os.path.dirname(os.path.dirname(os.path.abspath(__file__))), "build", "seed-evidence")
ROOT = os.path.dirname(os.path.dirname(os.path.abspath(__file__)))
only = sys.argv[1:]
rows = []
for sid in sorted(os.listdir(os.path.join(ROOT, "seeded"))):
    d = os.path.join(ROOT, "seeded", sid)
    if not os.path.isdir(d) or (only and sid not in only):
        continue
    meta = json.load(open(os.path.join(d, "meta.json")))
    if meta.get("status") == "obsolete":
        print(f"{sid:8s} obsolete             {meta.get('verdict', '')[:150]}")
        continue
    props = list(meta.get("checks_run", {}).keys()) or [meta["breaks_property"]]
    a = subprocess.run(["git", "-C", "/repo", "apply", os.path.join(d, "patch.diff")], capture_output=True, text=True)
    if a.returncode != 0:
        print(sid, "patch does not apply:", a.stderr[:200])
        rows.append((sid, "NO-APPLY", ""))
        continue
    res = {}
    try:
        for p in props:
            t0 = time.time()
            c = subprocess.run(["./check", p, "--tier", "quick"], cwd=ROOT, capture_output=True, text=True)
            out = c.stdout + c.stderr
            viol = [l.strip() for l in out.split("\n") if l.startswith("VIOLATION") or l.strip().startswith("obligation:")]
            und = [l[:300] for l in out.split("\n") if l.startswith("UNDECIDED")]
            res[p] = {"exit": c.returncode, "violations": viol, "undecided": und[:3], "wall_s": round(time.time() - t0, 1)}
    finally:
        subprocess.run(["git", "-C", "/repo", "checkout", "--", "."])
    meta["checks_run"] = res
    meta["caught"] = any(r["exit"] == 1 for r in res.values())
    meta["verdict"] = "caught" if meta["caught"] else ("undecided (exit 2)" if any(r["exit"] == 2 for r in res.values()) else "missed")
    json.dump(meta, open(os.path.join(d, "meta.json"), "w"), indent=1)
    obs = "; ".join(v.replace("obligation: ", "") for r in res.values() for v in r["violations"] if v.startswith("obligation"))
    print(f"{sid:8s} {meta['verdict']:20s} {obs[:200]}")
