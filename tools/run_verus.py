#!/usr/bin/env python3
"""Generate a unit from its template and run Verus on it; map diagnostics back to named obligations."""
import json
import os
import re
import subprocess
import sys
import time

HERE = os.path.dirname(os.path.abspath(__file__))
ROOT = os.path.dirname(HERE)
sys.path.insert(0, HERE)
import extract  # noqa: E402
import rscan  # noqa: E402

GEN = os.path.join(ROOT, "build", "gen")

SEMANTIC = (
    "postcondition not satisfied", "precondition not satisfied", "assertion failed", "invariant not satisfied",
    "possible arithmetic underflow/overflow", "possible division by zero", "decreases not satisfied",
    "possible bit shift underflow/overflow", "loop invariant", "unreachable", "recommendation not met",
    "could not prove termination", "cannot show invariant", "possible truncation", "unable to prove",
)
RESOURCE = ("rlimit", "resource limit", "timed out", "timeout", "solver", "memory")


def qualify(text, fns):
    """attach the enclosing impl header to each fn found in the generated text"""
    toks = rscan.tokenize(text)
    impls = []
    for i, t in enumerate(toks):
        if t.kind == "id" and t.text == "impl":
            prev = toks[i - 1] if i else None
            if prev is None or prev.text in ("}", ";", "]", "{") or prev.kind == "id" and prev.text in ("unsafe",):
                try:
                    it = rscan.make_item(text, toks, i, 0, len(toks))
                except rscan.ScanError:
                    continue
                if it.body_open is None:
                    continue
                l0 = text.count("\n", 0, toks[it.body_open].start) + 1
                l1 = text.count("\n", 0, it.end) + 1
                impls.append((l0, l1, it.name))
    for f in fns:
        q = f["name"]
        for l0, l1, name in impls:
            if l0 <= f["lines"][0] and f["lines"][1] <= l1:
                q = f"<{name}>::{f['name']}"
        f["qname"] = q
    return fns


def generate(unit):
    tpl = os.path.join(ROOT, "contracts", unit + ".rs")
    out = os.path.join(GEN, unit + ".rs")
    meta = extract.generate(tpl, out)
    with open(out, encoding="utf-8") as f:
        text = f.read()
    qualify(text, meta["fns"])
    return out, text, meta


def obligations_of(unit, text, meta):
    """the obligations this unit generates: every labelled clause, plus one `safety` obligation per exec fn
    with a body that is not external, plus one `lemma` obligation per proof fn that has no labelled clause."""
    lines = text.split("\n")
    obs = {}
    labels = {int(k): v for k, v in meta["labels"].items()}
    # labels on body-less trait methods are instantiated once per impl of that trait
    trait_labels = {}
    for f in meta["fns"]:
        if f["has_body"] or f["mode"] == "spec":
            continue
        l0, l1 = f["lines"]
        own = [(ln, lab) for ln, lab in labels.items() if l0 <= ln <= l1]
        if own:
            trait_labels.setdefault(f["name"], []).extend(own)
    meta["trait_label_lines"] = {str(ln): name for name, lst in trait_labels.items() for ln, _ in lst}
    for f in meta["fns"]:
        if not f["has_body"]:
            continue
        l0, l1 = f["lines"]
        # attributes sit on the lines just above
        k = l0 - 2
        external = False
        while k >= 0 and (lines[k].strip().startswith("#[") or lines[k].strip() == ""):
            if "external_body" in lines[k] or "verifier::external" in lines[k]:
                external = True
            k -= 1
        if "external_body" in lines[l0 - 1]:
            external = True
        f["external"] = external
        origin = meta["origin"][l0 - 1] if l0 - 1 < len(meta["origin"]) else ""
        if origin.startswith("contracts/shims") or f["name"] == "main":
            f["shim"] = True
            continue
        own = [(ln, lab) for ln, lab in labels.items() if l0 <= ln <= l1]
        # labels of nested fns belong to the innermost fn
        own = [(ln, lab) for ln, lab in own if not any(g is not f and g["lines"][0] >= l0 and g["lines"][1] <= l1 and g["lines"][0] <= ln <= g["lines"][1] for g in meta["fns"])]
        if f["mode"] == "spec":
            continue
        if external:
            continue
        for ln, lab in own:
            obs[f"{unit}/{lab}"] = {"kind": "clause", "fn": f["qname"], "line": ln, "text": lines[ln - 1].strip()}
        if f["qname"].startswith("<") and " for " in f["qname"] and f["name"] in trait_labels:
            for ln, lab in trait_labels[f["name"]]:
                obs[f"{unit}/{f['qname']}::{lab.split('::')[-1]}"] = {"kind": "clause", "fn": f["qname"], "line": ln, "text": lines[ln - 1].strip(), "trait_clause": True}
        if f["mode"] == "exec":
            obs[f"{unit}/{f['qname']}::safety"] = {"kind": "safety", "fn": f["qname"], "line": l0, "text": "no panic site of this function can fire under its precondition (expect/unwrap/index/slice/arithmetic/assert), callee preconditions hold"}
        elif not own:
            obs[f"{unit}/{f['qname']}::lemma"] = {"kind": "lemma", "fn": f["qname"], "line": l0, "text": lines[l0 - 1].strip()}
    return obs


def enclosing_fn(meta, line):
    best = None
    for f in meta["fns"]:
        if f["lines"][0] <= line <= f["lines"][1]:
            if best is None or f["lines"][0] >= best["lines"][0]:
                best = f
    return best


def run(unit, seed=0, rlimit=None, extra=None, only_fn=None, multiple_errors=8):
    t0 = time.time()
    res = {"unit": unit, "status": "ok", "failed": {}, "undecided": [], "diagnostics": [], "wall_s": 0.0}
    try:
        out, text, meta = generate(unit)
    except (extract.LostAnchor, rscan.ScanError, FileNotFoundError) as ex:
        res["status"] = "lost-anchor"
        res["undecided"].append(str(ex))
        res["obligations"] = {}
        res["wall_s"] = time.time() - t0
        return res
    res["gen_file"] = out
    res["meta"] = meta
    obs = obligations_of(unit, text, meta)
    # every labelled clause of the templates must have become an obligation (a label the scanner cannot attach to a function would silently drop a clause)
    _have = {k.split("/", 1)[1] for k, v in obs.items() if v["kind"] in ("clause", "lemma")}
    _lost = [l for l in set(meta["labels"].values()) if not any(h == l or h.endswith("::" + l.split("::")[-1]) for h in _have)]
    # a clause stated on a trait method whose impls are all assumed in this unit (assume_body: proved in another unit) yields no obligation here
    _trait_assumed = set()
    for _ln, _name in meta.get("trait_label_lines", {}).items():
        _impls = [f for f in meta["fns"] if f["has_body"] and f["name"] == _name and f.get("qname", "").startswith("<") and " for " in f.get("qname", "")]
        if _impls and all(f.get("external") for f in _impls):
            _trait_assumed.add(meta["labels"][_ln] if _ln in meta["labels"] else meta["labels"].get(int(_ln)))
    _lost = [l for l in _lost if l not in _trait_assumed]
    if _lost:
        res["status"] = "tool-error"
        res["undecided"].append("labelled clause without obligation (template/scanner problem): " + ", ".join(sorted(_lost)))
    res["obligations"] = obs
    cmd = ["verus", out, "--triggers-mode", "silent", "--output-json", "--time", "--error-format=json",
           "--multiple-errors", str(multiple_errors), "--num-threads", "8"]
    if seed:
        cmd += ["--smt-option", f"smt.random_seed={seed % 1000}"]
    if rlimit:
        cmd += ["--rlimit", str(rlimit)]
    if only_fn:
        cmd += ["--verify-root", "--verify-function", only_fn]
    if extra:
        cmd += extra
    res["cmd"] = " ".join(cmd)
    logdir = os.path.join(ROOT, "build", "verus-log", unit)
    os.makedirs(logdir, exist_ok=True)
    p = subprocess.run(cmd, capture_output=True, text=True, cwd=logdir)
    res["exit"] = p.returncode
    try:
        js = json.loads(p.stdout)
    except Exception:
        js = None
    rendered = []
    diags = []
    for ln in p.stderr.split("\n"):
        ln = ln.strip()
        if not ln.startswith("{"):
            if ln:
                rendered.append(ln)
            continue
        try:
            d = json.loads(ln)
        except Exception:
            rendered.append(ln)
            continue
        if d.get("level") not in ("error",):
            continue
        if d["message"].startswith("aborting due to"):
            continue
        diags.append(d)
        rendered.append(d.get("rendered") or d["message"])
    res["verifier_output"] = "\n".join(rendered)
    if js is None:
        res["status"] = "tool-error"
        res["undecided"].append("verus produced no JSON: " + p.stderr[-2000:])
        res["wall_s"] = time.time() - t0
        return res
    vr = js.get("verification-results", {})
    res["verified_fns"] = vr.get("verified", 0)
    res["error_fns"] = vr.get("errors", 0)
    tm = js.get("times-ms", {})
    res["smt_ms"] = tm.get("smt", {}).get("smt-run", 0)
    res["total_ms"] = tm.get("total", 0)
    fb = []
    for m in tm.get("smt", {}).get("smt-run-module-times", []):
        for f in m.get("function-breakdown", []):
            fb.append({"function": f["function"].split("::", 1)[-1], "mode": f.get("mode:"), "smt_us": f.get("time-micros"), "rlimit": f.get("rlimit"), "success": f.get("success")})
    res["function_breakdown"] = fb
    if vr.get("encountered-vir-error") or (p.returncode != 0 and not diags):
        res["status"] = "tool-error"
        res["undecided"].append("verus error without diagnostics: " + " | ".join(d["message"] for d in diags)[:400] + p.stderr[-300:])
    for d in diags:
        msg = d["message"]
        low = msg.lower()
        prim = [s for s in d["spans"] if s.get("is_primary")] or d["spans"]
        line = prim[0]["line_start"] if prim else 0
        entry = {"message": msg, "line": line, "rendered": d.get("rendered", "")}
        res["diagnostics"].append(entry)
        if any(r in low for r in RESOURCE) and not any(s in low for s in SEMANTIC):
            res["undecided"].append(f"resource: {msg} (line {line})")
            continue
        if not any(s in low for s in SEMANTIC):
            res["status"] = "tool-error"
            res["undecided"].append(f"not a verification verdict: {msg} (line {line})")
            continue
        labels = {int(k): v for k, v in meta["labels"].items()}
        ob = None
        tl = meta.get("trait_label_lines", {})
        if "postcondition" in low or "invariant" in low or "assertion failed" in low or "decreases" in low:
            # the primary span is the failed clause
            for s in d["spans"]:
                for ll in range(s["line_start"], s["line_end"] + 1):
                    if ll in labels and s.get("is_primary"):
                        if str(ll) in tl:
                            # clause stated on the trait: the failing impl is where the other span points
                            for s2 in d["spans"]:
                                ff = enclosing_fn(meta, s2["line_start"])
                                if ff is not None and ff.get("has_body") and ff["name"] == tl[str(ll)]:
                                    ob = f"{unit}/{ff['qname']}::{labels[ll].split('::')[-1]}"
                        else:
                            ob = f"{unit}/{labels[ll]}"
        if ob is None and ("closure" in low or "assertion failed" in low or "invariant" in low):
            # a closure inside an impl does not deliver its stated per-element result: charge the fn's first clause
            for s in d["spans"]:
                ff = enclosing_fn(meta, s["line_start"])
                if ff is not None:
                    cl = [k for k, v in obs.items() if v["fn"] == ff["qname"] and v["kind"] == "clause"]
                    if cl:
                        ob = cl[-1]
                        break
        f = None
        if ob is None:
            # safety class: attribute to the function whose body contains the failing site
            cand = []
            for s in d["spans"]:
                ff = enclosing_fn(meta, s["line_start"])
                if ff is not None and ff["mode"] != "spec" and not ff.get("external"):
                    cand.append((0 if s.get("is_primary") else 1, ff))
            cand.sort(key=lambda x: x[0])
            # for precondition failures the primary span is the call site
            if cand:
                f = cand[0][1]
                if "postcondition" in low or "invariant" in low or "assertion" in low:
                    ob = f"{unit}/{f['qname']}::unlabelled@{line}"
                elif f["mode"] == "exec":
                    ob = f"{unit}/{f['qname']}::safety"
                else:
                    ob = f"{unit}/{f['qname']}::lemma"
        # a failing step of an inserted proof (lemma precondition, overflow in ghost arithmetic) is a failure of the clause it serves
        if ob is not None and ob.endswith("::safety") and line and line - 1 < len(meta["origin"]) and meta["origin"][line - 1].startswith("contracts/"):
            ff = enclosing_fn(meta, line)
            if ff is not None:
                cl = [k for k, v in obs.items() if v["fn"] == ff["qname"] and v["kind"] == "clause"]
                if cl:
                    ob = cl[-1]
        if ob is None:
            res["status"] = "tool-error"
            res["undecided"].append(f"cannot attribute: {msg} (line {line})")
            continue
        # a loop that the contract file does not annotate cannot be judged: Verus knows nothing after it.
        # That is "needs contract", not a violation (a harmless recursion -> loop refactoring must not raise an alarm).
        unannotated = None
        for it in meta["items"]:
            g0, g1 = it.get("gen_span", [0, 0])
            if g0 <= line <= g1 and it.get("loops", 0) > it.get("loops_annotated", 0):
                unannotated = it
        if unannotated is None and ob in obs:
            fl = next((f for f in meta["fns"] if f.get("qname") == obs[ob]["fn"]), None)
            if fl is not None:
                for it in meta["items"]:
                    g0, g1 = it.get("gen_span", [0, 0])
                    if g0 <= fl["lines"][0] and fl["lines"][1] <= g1 and it.get("loops", 0) > it.get("loops_annotated", 0):
                        unannotated = it
        if unannotated is not None:
            res["undecided"].append(f"{ob}: `{unannotated['path']}` contains {unannotated['loops']} loop(s) but the contract annotates {unannotated['loops_annotated']}: needs a loop invariant, undecided ({msg})")
            continue
        res["failed"].setdefault(ob, []).append(entry)
    if p.returncode != 0 and not res["failed"] and not res["undecided"]:
        res["status"] = "tool-error"
        res["undecided"].append("verus exit != 0 but nothing attributed")
    if p.returncode == 0 and (vr.get("errors", 0) != 0 or not vr.get("success", False)):
        res["status"] = "tool-error"
    res["wall_s"] = time.time() - t0
    return res


if __name__ == "__main__":
    r = run(sys.argv[1])
    r.pop("meta", None)
    print(json.dumps({k: v for k, v in r.items() if k not in ("function_breakdown",)}, indent=1)[:6000])
