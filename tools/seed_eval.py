#!/usr/bin/env python3
"""Confirm a seeded change (written by an independent sub-agent) in its scratch worktree, store it under /verif/seeded/,
then run the registered checks against it on /repo and record which obligations catch it.

usage: seed_eval.py <worktree> <A|B> <seed id> <placement> <cargo test args for the demo> -- <property ids...>
placement:  integration:<relative path>  |  append:<relative file>  |  featuretest:<module name>
"""
import json
import os
import re
import shutil
import subprocess
import sys
import time

ROOT = os.path.dirname(os.path.dirname(os.path.abspath(__file__)))
os.environ["VERIF_EVIDENCE_DIR"] = os.path.join(ROOT, "build", "seed-evidence")


def sh(cmd, cwd, env=None, timeout=3600):
    e = dict(os.environ)
    if env:
        e.update(env)
    p = subprocess.run(cmd, shell=True, cwd=cwd, env=e, capture_output=True, text=True, timeout=timeout)
    return p.returncode, p.stdout + p.stderr


def main():
    wt, which, sid, placement, demo_args = sys.argv[1:6]
    props = sys.argv[sys.argv.index("--") + 1:]
    seed = os.path.join(wt, "_seed")
    env = {"CARGO_TARGET_DIR": os.path.join(wt, "target"), "CARGO_NET_OFFLINE": "true"}
    diff = os.path.join(seed, f"{which}.diff")
    demo = [f for f in os.listdir(seed) if f.startswith(f"{which}_demo")][0]
    demo_src = os.path.join(seed, demo)
    log = {"seed": sid, "which": which, "ran": []}

    sh("git checkout -- . && git clean -fdq -e _seed -e target", wt)
    # place the demonstration
    kind, arg = placement.split(":", 1)
    if kind == "integration":
        os.makedirs(os.path.dirname(os.path.join(wt, arg)), exist_ok=True)
        shutil.copy(demo_src, os.path.join(wt, arg))
    elif kind == "append":
        with open(os.path.join(wt, arg), "a") as f:
            f.write("\n" + open(demo_src).read())
    elif kind == "featuretest":
        shutil.copy(demo_src, os.path.join(wt, "lsp4spl/src/features/tests", arg + ".rs"))
        with open(os.path.join(wt, "lsp4spl/src/features/tests/mod.rs"), "a") as f:
            f.write(f"\nmod {arg};\n")
    demo_cmd = f"cargo test --offline {demo_args}"
    rc0, out0 = sh(demo_cmd, wt, env)
    log["ran"].append({"cmd": demo_cmd, "tree": "unchanged + demo", "exit": rc0, "tail": out0[-400:]})
    rc, out = sh(f"git apply {diff}", wt)
    if rc != 0:
        print("patch does not apply:", out)
        return 2
    rc1, out1 = sh(demo_cmd, wt, env)
    log["ran"].append({"cmd": demo_cmd, "tree": "changed + demo", "exit": rc1, "tail": out1[-600:]})
    # the unchanged suite with the change (demo removed)
    sh("git stash -q -u -- . ':!_seed' 2>/dev/null; git checkout -- . ; git clean -fdq -e _seed -e target", wt)
    sh(f"git apply {diff}", wt)
    rc2, out2 = sh("cargo test --workspace --no-fail-fast --offline", wt, env)
    passed = sum(int(x) for x in re.findall(r"test result: ok\. (\d+) passed", out2))
    failed = sum(int(x) for x in re.findall(r"(\d+) failed", out2))
    log["ran"].append({"cmd": "cargo test --workspace --no-fail-fast --offline", "tree": "changed", "exit": rc2, "passed": passed, "failed": failed})
    sh("git checkout -- . ; git clean -fdq -e _seed -e target", wt)
    ok = rc0 == 0 and rc1 != 0 and rc2 == 0 and passed == 142
    print(f"[{sid}] demo on unchanged: {'pass' if rc0 == 0 else 'FAIL'}; demo with change: {'fail' if rc1 != 0 else 'PASS(!)'}; suite with change: {passed} passed, exit {rc2} -> {'CONFIRMED' if ok else 'REJECTED'}")
    if not ok:
        print(out0[-800:] if rc0 else "", out1[-300:], out2[-500:] if rc2 else "")
        return 1
    # store
    dst = os.path.join(ROOT, "seeded", sid)
    os.makedirs(dst, exist_ok=True)
    shutil.copy(diff, os.path.join(dst, "patch.diff"))
    shutil.copy(demo_src, os.path.join(dst, demo.replace(f"{which}_", "")))
    meta_all = json.load(open(os.path.join(seed, "meta.json")))
    agent_meta = meta_all.get(which) or meta_all.get(which.lower()) or meta_all.get("changes", {}).get(which) if isinstance(meta_all, dict) else None
    if agent_meta is None and isinstance(meta_all, dict):
        for k, v in meta_all.items():
            if k.upper().startswith(which) or (isinstance(v, dict) and str(v.get("id", "")).upper() == which):
                agent_meta = v
    if agent_meta is None and isinstance(meta_all, list):
        agent_meta = meta_all[0 if which == "A" else 1]
    # run the checks against /repo
    results = {}
    rc, out = sh(f"git -C /repo apply {os.path.join(dst, 'patch.diff')}", "/repo")
    if rc != 0:
        print("cannot apply to /repo:", out)
        return 2
    try:
        for prop in props:
            t0 = time.time()
            rcc, outc = sh(f"./check {prop} --tier quick", ROOT)
            viol = [l for l in outc.split("\n") if l.startswith("VIOLATION") or l.strip().startswith("obligation:")]
            und = [l for l in outc.split("\n") if l.startswith("UNDECIDED")]
            results[prop] = {"exit": rcc, "violations": viol, "undecided": und[:4], "wall_s": round(time.time() - t0, 1)}
            print(f"   check {prop}: exit {rcc}", "; ".join(v.strip() for v in viol if 'obligation' in v)[:400], (und[:1] or [""])[0][:200])
    finally:
        sh("git -C /repo checkout -- .", "/repo")
    meta = {
        "id": sid, "breaks_property": props[0] if props else None, "written_by": "independent sub-agent (saw only the property text and its own worktree)",
        "demo_placement": placement, "demo_cmd": demo_cmd, "agent_description": agent_meta,
        "confirmed": log["ran"], "checks_run": results,
        "caught": any(r["exit"] == 1 for r in results.values()),
    }
    with open(os.path.join(dst, "meta.json"), "w") as f:
        json.dump(meta, f, indent=1)
    return 0


if __name__ == "__main__":
    sys.exit(main())
