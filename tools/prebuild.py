#!/usr/bin/env python3
"""setup: generate every unit once and pre-build the Kani harness crates (dependencies are the slow part)."""
import json, os, subprocess, sys
HERE = os.path.dirname(os.path.abspath(__file__))
ROOT = os.path.dirname(HERE)
sys.path.insert(0, HERE)
import run_kani, run_verus
cfg = json.load(open(os.path.join(ROOT, "units.json")))
units = sorted({u for p in cfg["properties"].values() for u in p.get("verus", [])})
kanis = sorted({u for p in cfg["properties"].values() for u in p.get("kani", [])})
# warm up verus (first run after restore is slow)
for u in units[:1]:
    r = run_verus.run(u)
    print("verus warm-up", u, r["status"])
for k in kanis:
    dst, c, meta = run_kani.prepare(k)
    b = subprocess.run(["cargo", "kani", "--only-codegen"] + c.get("flags", []), cwd=dst, env=run_kani.env(), capture_output=True, text=True)
    print("kani prebuild", k, "ok" if b.returncode == 0 else "FAILED\n" + (b.stderr or b.stdout)[-2000:])
    if b.returncode != 0:
        sys.exit(1)
