"""Small Rust-aware scanner: tokens with byte spans, bracket matching, item lookup.

It does not parse types or expressions.  It knows comments (line, nested block),
string / raw string / byte string / char literals vs. lifetimes, identifiers,
numbers and punctuation, and matches (), [], {}.
"""
import re

IDENT_START = set("abcdefghijklmnopqrstuvwxyzABCDEFGHIJKLMNOPQRSTUVWXYZ_")
IDENT_CONT = IDENT_START | set("0123456789")


class ScanError(Exception):
    pass


class Tok:
    __slots__ = ("kind", "text", "start", "end", "mate")

    def __init__(self, kind, text, start, end):
        self.kind = kind      # id, num, str, char, life, punct, open, close
        self.text = text
        self.start = start
        self.end = end
        self.mate = None      # index of matching bracket token

    def __repr__(self):
        return f"Tok({self.kind},{self.text!r},{self.start})"


def tokenize(src, keep_comments=False):
    toks = []
    i, n = 0, len(src)
    while i < n:
        c = src[i]
        if c in " \t\r\n":
            i += 1
            continue
        if src.startswith("//", i):
            j = src.find("\n", i)
            j = n if j < 0 else j
            if keep_comments:
                toks.append(Tok("comment", src[i:j], i, j))
            i = j
            continue
        if src.startswith("/*", i):
            depth, j = 1, i + 2
            while j < n and depth:
                if src.startswith("/*", j):
                    depth += 1
                    j += 2
                elif src.startswith("*/", j):
                    depth -= 1
                    j += 2
                else:
                    j += 1
            if keep_comments:
                toks.append(Tok("comment", src[i:j], i, j))
            i = j
            continue
        # raw strings r"..", r#".."#, br"..", and byte strings b".."
        m = re.match(r'(b|c)?r(#*)"', src[i:i + 40])
        if m and (i == 0 or src[i - 1] not in IDENT_CONT):
            hashes = m.group(2)
            close = '"' + hashes
            j = src.find(close, i + m.end())
            if j < 0:
                raise ScanError("unterminated raw string")
            j += len(close)
            toks.append(Tok("str", src[i:j], i, j))
            i = j
            continue
        if c == '"' or (c in "bc" and i + 1 < n and src[i + 1] == '"' and (i == 0 or src[i - 1] not in IDENT_CONT)):
            j = i + (1 if c == '"' else 2)
            while j < n and src[j] != '"':
                j += 2 if src[j] == "\\" else 1
            j += 1
            toks.append(Tok("str", src[i:j], i, j))
            i = j
            continue
        if c == "'" or (c == "b" and i + 1 < n and src[i + 1] == "'"):
            k = i + (1 if c == "'" else 2)
            # char literal or lifetime
            if k < n and src[k] == "\\":
                j = k + 2
                while j < n and src[j] != "'":
                    j += 1
                j += 1
                toks.append(Tok("char", src[i:j], i, j))
                i = j
                continue
            if k + 1 < n and src[k + 1] == "'" and src[k] != "'":
                j = k + 2
                toks.append(Tok("char", src[i:j], i, j))
                i = j
                continue
            # multi-byte char literal like 'é'
            m2 = re.match(r"'[^'\\\n]'", src[i:i + 8])
            if m2 and c == "'":
                j = i + m2.end()
                toks.append(Tok("char", src[i:j], i, j))
                i = j
                continue
            if c == "'":
                j = k
                while j < n and src[j] in IDENT_CONT:
                    j += 1
                toks.append(Tok("life", src[i:j], i, j))
                i = j
                continue
        if c in IDENT_START:
            j = i + 1
            while j < n and src[j] in IDENT_CONT:
                j += 1
            # raw identifiers r#foo
            toks.append(Tok("id", src[i:j], i, j))
            i = j
            continue
        if c.isdigit():
            j = i + 1
            while j < n and (src[j] in IDENT_CONT or (src[j] == "." and j + 1 < n and src[j + 1].isdigit())):
                j += 1
            toks.append(Tok("num", src[i:j], i, j))
            i = j
            continue
        if c in "([{":
            toks.append(Tok("open", c, i, i + 1))
            i += 1
            continue
        if c in ")]}":
            toks.append(Tok("close", c, i, i + 1))
            i += 1
            continue
        # punctuation: keep multi-char operators that matter for scanning together
        for p in ("::", "->", "=>", "==", "!=", "<=", ">=", "&&", "||", "..=", "..", "+=", "-=", "*=", "/="):
            if src.startswith(p, i):
                toks.append(Tok("punct", p, i, i + len(p)))
                i += len(p)
                break
        else:
            toks.append(Tok("punct", c, i, i + 1))
            i += 1
    # bracket matching (comments are never brackets)
    stack = []
    pairs = {")": "(", "]": "[", "}": "{"}
    for idx, t in enumerate(toks):
        if t.kind == "open":
            stack.append(idx)
        elif t.kind == "close":
            if not stack or toks[stack[-1]].text != pairs[t.text]:
                raise ScanError(f"unbalanced {t.text} at byte {t.start}")
            o = stack.pop()
            toks[o].mate = idx
            t.mate = o
    if stack:
        raise ScanError(f"unclosed {toks[stack[-1]].text} at byte {toks[stack[-1]].start}")
    return toks


def norm(text):
    """whitespace-insensitive normal form of a piece of Rust text"""
    return " ".join(t.text for t in tokenize(text))


ITEM_KW = {"fn", "struct", "enum", "trait", "impl", "const", "type", "static", "mod", "use"}
PREFIX_KW = {"pub", "const", "async", "unsafe", "extern", "default"}


class Item:
    def __init__(self, kind, name, start, end, head_tok, body_open, body_close, toks, first_tok, last_tok):
        self.kind = kind
        self.name = name              # for impl: normalised header
        self.start = start            # byte start incl. attributes / visibility
        self.end = end                # byte end (after '}' or ';')
        self.head_tok = head_tok      # index of keyword token
        self.body_open = body_open    # token index of '{' (or None)
        self.body_close = body_close
        self.first_tok = first_tok
        self.last_tok = last_tok


def _item_start_tok(toks, kw_idx, lo):
    """walk back from the item keyword over visibility, qualifiers and attributes"""
    i = kw_idx
    while i - 1 >= lo:
        p = toks[i - 1]
        if p.kind == "id" and p.text in PREFIX_KW and not (p.text == "const" and toks[kw_idx].text == "const" and i == kw_idx and False):
            i -= 1
            continue
        if p.kind == "str" and i - 2 >= lo and toks[i - 2].text == "extern":
            i -= 1
            continue
        if p.kind == "close" and p.text == ")" and p.mate - 1 >= lo and toks[p.mate - 1].text == "pub":
            i = p.mate - 1
            continue
        if p.kind == "close" and p.text == "]" and p.mate - 1 >= lo and toks[p.mate - 1].text == "#":
            i = p.mate - 1
            continue
        break
    return i


def _find_body_or_semi(toks, i, hi):
    """from token i (just after the keyword) find '{' at bracket depth 0, or ';'"""
    j = i
    while j < hi:
        t = toks[j]
        if t.kind == "open":
            if t.text == "{":
                return ("body", j)
            j = t.mate + 1
            continue
        if t.text == ";":
            return ("semi", j)
        j += 1
    raise ScanError("item without body or semicolon")


def make_item(src, toks, kw_idx, lo, hi):
    kw = toks[kw_idx]
    kind = kw.text
    first = _item_start_tok(toks, kw_idx, lo)
    what, j = _find_body_or_semi(toks, kw_idx + 1, hi)
    if kind in ("struct",) and what == "body":
        pass
    if what == "body":
        bo, bc = j, toks[j].mate
        last = bc
        # tuple struct with where clause etc. not handled; `struct X(..);` ends with ';'
    else:
        bo = bc = None
        last = j
    if kind == "impl":
        hdr_end = toks[bo].start if bo is not None else toks[last].start
        name = norm(src[kw.end:hdr_end])
    else:
        name = toks[kw_idx + 1].text if kw_idx + 1 < len(toks) else ""
    return Item(kind, name, toks[first].start, toks[last].end, kw_idx, bo, bc, toks, first, last)


def find_items(src, toks, lo, hi, kind, name, depth0_only=False):
    """all items of `kind` named `name` whose keyword token lies in toks[lo:hi]"""
    out = []
    j = lo
    while j < hi:
        t = toks[j]
        if depth0_only and t.kind == "open":
            j = t.mate + 1
            continue
        if t.kind == "id" and t.text == kind:
            ok = False
            if kind == "impl":
                # `impl` in type position (impl Trait) is preceded by ':' '->' '(' ',' '<' '&' etc.
                prev = toks[j - 1] if j > 0 else None
                if prev is None or prev.text in ("}", ";", "]") or (prev.kind == "id" and prev.text in ("unsafe", "default")) or j == lo:
                    try:
                        it = make_item(src, toks, j, lo, hi)
                        ok = it.body_open is not None and it.name == name
                    except ScanError:
                        ok = False
            elif kind == "fn":
                nxt = toks[j + 1] if j + 1 < hi else None
                if nxt is not None and nxt.kind == "id" and nxt.text == name:
                    it = make_item(src, toks, j, lo, hi)
                    ok = True
            else:
                nxt = toks[j + 1] if j + 1 < hi else None
                prev = toks[j - 1] if j > 0 else None
                if nxt is not None and nxt.kind == "id" and nxt.text == name and not (prev is not None and prev.text in ("::", ".")):
                    # `const` also appears as qualifier (`const fn`) – then next is `fn`, not the name
                    it = make_item(src, toks, j, lo, hi)
                    ok = True
            if ok:
                out.append(it)
                if depth0_only and it.body_close is not None:
                    j = it.body_close + 1
                    continue
        j += 1
    return out


def find_closures(src, toks, lo, hi, params_norm):
    """closure literals |params| body inside toks[lo:hi] whose parameter text matches.
    Returns list of (bar_open_idx, bar_close_idx, body_first_idx, body_last_idx, is_block)"""
    out = []
    j = lo
    while j < hi:
        t = toks[j]
        if t.text in ("|", "||") and t.kind == "punct":
            prev = toks[j - 1] if j > lo else None
            # a closure starts where an expression starts
            starts_expr = prev is None or prev.text in ("(", ",", "=", "{", ";", "=>", "move", "return", "[", "&&", "||x") or (prev.kind == "id" and prev.text == "move")
            if starts_expr:
                if t.text == "||":
                    k = j
                    ptxt = ""
                else:
                    k = j + 1
                    depth = 0
                    while k < hi and not (toks[k].text == "|" and toks[k].kind == "punct" and depth == 0):
                        if toks[k].kind == "open":
                            k = toks[k].mate
                        k += 1
                    ptxt = norm(src[toks[j].end:toks[k].start])
                if ptxt == params_norm:
                    b = k + 1
                    # optional `-> T` is followed by a block
                    if toks[b].text == "->":
                        while not (toks[b].kind == "open" and toks[b].text == "{"):
                            b += 1
                    if toks[b].kind == "open" and toks[b].text == "{":
                        out.append((j, k, b, toks[b].mate, True))
                    else:
                        # expression body: runs to the ',' or ')' at depth 0
                        e = b
                        while e < hi:
                            if toks[e].kind == "open":
                                e = toks[e].mate + 1
                                continue
                            if toks[e].text in (",", ";") or toks[e].kind == "close":
                                break
                            e += 1
                        out.append((j, k, b, e - 1, False))
        j += 1
    return out
