#!/usr/bin/env python3
"""Markdown table of the seeded changes and which check/obligation caught them (from seeded/*/meta.json)."""
import json, os
ROOT = os.path.dirname(os.path.dirname(os.path.abspath(__file__)))
rows = []
for sid in sorted(os.listdir(os.path.join(ROOT, "seeded"))):
    p = os.path.join(ROOT, "seeded", sid, "meta.json")
    if not os.path.exists(p):
        continue
    m = json.load(open(p))
    d = m.get("agent_description") or {}
    what = ""
    if isinstance(d, dict):
        for k in ("summary", "why_it_breaks_the_property", "why", "why_breaks", "description", "why_it_breaks", "breaks"):
            if k in d and isinstance(d[k], str):
                what = d[k]
                break
        if not what:
            what = " ".join(str(v) for v in d.values() if isinstance(v, str))[:300]
        where = d.get("function") or d.get("functions") or d.get("files_functions") or d.get("changed") or ""
    else:
        what, where = str(d)[:300], ""
    obs_l = []
    for r in m.get("checks_run", {}).values():
        for v in r.get("violations", []):
            v = v.strip()
            if v.startswith("obligation:"):
                o = v.replace("obligation: ", "").strip()
                if o not in obs_l:
                    obs_l.append(o)
    obs = "; ".join(obs_l[:4]) + (" …" if len(obs_l) > 4 else "")
    und = "; ".join(u.replace("UNDECIDED: ", "") for r in m.get("checks_run", {}).values() for u in r.get("undecided", []))[:150]
    exits = [r["exit"] for r in m.get("checks_run", {}).values()]
    verdict = "caught" if 1 in exits else ("undecided" if 2 in exits else "missed")
    if m.get("status") == "obsolete":
        verdict = "missed at base commit, obsolete after fix D11"
    rows.append((sid, m.get("breaks_property"), verdict, obs or und, what.replace("\n", " ")[:220]))
print("| seed | property | verdict | obligation(s) that fail / reason | change (as described by its author) |")
print("|---|---|---|---|---|")
for r in rows:
    print("| " + " | ".join(str(x).replace("|", "\\|") for x in r) + " |")
c = sum(1 for r in rows if r[2] == "caught")
print(f"\n{c} of {len(rows)} caught")
