#!/usr/bin/env python3
"""Build a Kani harness crate from its template (functions extracted from /repo on every run) and run its harnesses."""
import concurrent.futures
import json
import os
import re
import resource
import shutil
import subprocess
import sys
import time

HERE = os.path.dirname(os.path.abspath(__file__))
ROOT = os.path.dirname(HERE)
sys.path.insert(0, HERE)
import extract  # noqa: E402
import rscan  # noqa: E402

MEM_LIMIT = 14 * 1024 ** 3


def _limits():
    try:
        resource.setrlimit(resource.RLIMIT_AS, (MEM_LIMIT, MEM_LIMIT))
    except Exception:
        pass
    os.setsid()


def crate_dir(name):
    return os.path.join(ROOT, "build", "kani", name)


def prepare(name):
    src = os.path.join(ROOT, "kani", name)
    dst = crate_dir(name)
    os.makedirs(os.path.join(dst, "src"), exist_ok=True)
    shutil.copy(os.path.join(src, "Cargo.toml"), os.path.join(dst, "Cargo.toml"))
    with open(os.path.join(src, "harnesses.json")) as f:
        cfg = json.load(f)
    if cfg.get("deps"):
        shutil.copy(os.path.join(extract.REPO, "Cargo.lock"), os.path.join(dst, "Cargo.lock"))
    meta = extract.generate(os.path.join(src, "main.rs"), os.path.join(dst, "src", "main.rs"))
    return dst, cfg, meta


def env():
    e = dict(os.environ)
    e["CARGO_NET_OFFLINE"] = "true"
    e["CARGO_TARGET_DIR"] = os.path.join(ROOT, "build", "kani-target")
    return e


def parse_output(out):
    res = {"result": "UNKNOWN", "covers": {}, "failed_checks": []}
    if "VERIFICATION:- SUCCESSFUL" in out:
        res["result"] = "SUCCESS"
    elif "VERIFICATION:- FAILED" in out:
        res["result"] = "FAILURE"
    # checks
    for m in re.finditer(r"Check \d+: (\S+)\n\s+- Status: (\w+)\n\s+- Description: \"(.*?)\"\n\s+- Location: (.*?)\n", out):
        cid, status, desc, loc = m.groups()
        if ".cover." in cid:
            res["covers"][desc] = status
        elif status == "FAILURE":
            res["failed_checks"].append({"check": cid, "description": desc, "location": loc})
    if res["result"] == "FAILURE" and res["failed_checks"] and all("unwinding assertion" in c["description"] for c in res["failed_checks"]):
        res["result"] = "UNWIND-BOUND-TOO-SMALL"
    if res["result"] == "FAILURE" and res["failed_checks"] and all("unsupported_construct" in c["check"] or "not currently supported by Kani" in c["description"] for c in res["failed_checks"]):
        # the harness reaches code Kani cannot translate (inline asm, ...): a tool limit, never an alarm
        res["result"] = "UNSUPPORTED-CONSTRUCT"
    if res["result"] == "FAILURE" and not res["failed_checks"]:
        # CBMC died (out of memory / killed): a resource verdict, never an alarm
        res["result"] = "RESOURCE"
    m = re.search(r"Verification Time: ([\d.]+)s", out)
    if m:
        res["verification_time_s"] = float(m.group(1))
    return res


def run_one(dst, full_name, flags, timeout, playback=False):
    cmd = ["cargo", "kani", "--harness", full_name] + flags
    if playback:
        cmd += ["-Z", "concrete-playback", "--concrete-playback=print"]
    t0 = time.time()
    try:
        p = subprocess.Popen(cmd, cwd=dst, env=env(), stdout=subprocess.PIPE, stderr=subprocess.STDOUT, text=True, preexec_fn=_limits)
        try:
            out, _ = p.communicate(timeout=timeout)
        except subprocess.TimeoutExpired:
            os.killpg(os.getpgid(p.pid), 9)
            out, _ = p.communicate()
            return {"result": "CAP-REACHED", "covers": {}, "failed_checks": [], "output": out[-1500:], "wall_s": time.time() - t0, "cmd": " ".join(cmd)}
    except Exception as ex:
        return {"result": "TOOL-ERROR", "covers": {}, "failed_checks": [], "output": str(ex), "wall_s": time.time() - t0, "cmd": " ".join(cmd)}
    r = parse_output(out)
    r["wall_s"] = round(time.time() - t0, 1)
    r["cmd"] = " ".join(cmd)
    if r["result"] == "UNKNOWN":
        r["result"] = "TOOL-ERROR"
        r["output"] = out[-3000:]
    elif r["result"] == "FAILURE":
        r["output"] = "\n".join(f"{c['check']}: {c['description']} @ {c['location']}" for c in r["failed_checks"])
    if playback:
        tests = re.findall(r"```\n(.*?)```", out, re.S)
        pick = [t for t in tests if "Check for `assertion`" in t or "Check for `arithmetic_overflow`" in t or "panic" in t.split("#[test]")[0]]
        pick = pick or [t for t in tests if "Check for `cover`" not in t]
        r["playback_test"] = ("#[test]" + pick[0].split("#[test]", 1)[1]) if pick and "#[test]" in pick[0] else None
    return r


def run(name, tier="quick", prop=None):
    t0 = time.time()
    res = {"unit": "kani:" + name, "engine": "kani", "status": "ok", "undecided": [], "harnesses": [], "failed": {}}
    try:
        dst, cfg, meta = prepare(name)
    except (extract.LostAnchor, rscan.ScanError, FileNotFoundError) as ex:
        res["status"] = "lost-anchor"
        res["undecided"].append(str(ex))
        return res
    res["items"] = meta["items"]
    res["meta"] = meta
    res["assumptions"] = cfg.get("assumptions", [])
    sizes = cfg.get("sizes", {}).get(tier) or [None]
    timeout = cfg.get("timeout_s", {}).get(tier, 900)
    flags = cfg.get("flags", [])
    jobs = []
    for h in cfg["harnesses"]:
        tiers = h.get("tiers")
        if tiers and tier not in tiers:
            continue
        if prop and h.get("scope") and prop not in h["scope"]:
            continue
        for sz in (h.get("sizes", {}).get(tier) or sizes):
            full = f"harness::{sz}::{h['name']}" if sz else f"harness::{h['name']}"
            jobs.append((h, sz, full))
    # one build first so that the parallel runs do not fight over it
    b = subprocess.run(["cargo", "kani", "--only-codegen"] + flags, cwd=dst, env=env(), capture_output=True, text=True)
    if b.returncode != 0:
        res["status"] = "tool-error"
        res["undecided"].append("kani build failed: " + (b.stderr or b.stdout)[-2500:])
        return res
    res["cmd"] = f"(cd build/kani/{name} && cargo kani --harness <each of {len(jobs)} harnesses> {' '.join(flags)})"

    def work(job):
        h, sz, full = job
        r = run_one(dst, full, flags, timeout)
        if r["result"] == "FAILURE":
            r2 = run_one(dst, full, flags, timeout, playback=True)
            r["playback_test"] = r2.get("playback_test")
        return job, r

    with concurrent.futures.ThreadPoolExecutor(max_workers=int(os.environ.get("VERIF_KANI_JOBS", "6"))) as ex:
        for (h, sz, full), r in ex.map(work, jobs):
            complete = bool(h.get("complete", cfg.get("complete", False)))
            row = {
                "name": full, "fn": h["fn"], "claim": h["claim"], "scope": h.get("scope"),
                "complete": complete, "bound": (cfg.get("bound_text", {}).get(sz) if sz else h.get("bound", "complete finite domain")),
                "result": r["result"], "covers": r["covers"], "wall_s": r.get("wall_s"), "output": r.get("output", ""),
            }
            if r["result"] == "SUCCESS":
                bad = [d for d, st in r["covers"].items() if st != "SATISFIED"]
                if bad:
                    row["result"] = "COVER-UNSATISFIED"
                    row["output"] = "cover not reached (vacuity guard): " + "; ".join(bad)
            if r["result"] == "FAILURE":
                test = r.get("playback_test")
                if not test:
                    # harness without symbolic inputs: the harness body itself is the concrete run
                    fn = full.split("::")[-1]
                    test = f"#[test]\nfn kani_concrete_playback_{fn}() {{\n    {fn}();\n}}\n"
                row["concrete"] = {"kind": "kani-playback", "crate": name, "harness": full, "test": test}
            res["harnesses"].append(row)
    res["wall_s"] = round(time.time() - t0, 1)
    return res


def counterexample_for(ob_id):
    """Verus gives no counterexample.  If a Kani harness is registered as the pair of this obligation (kani/*/harnesses.json,
    key "pairs"), run it on the current tree; a FAILURE yields concrete values that are replayed natively."""
    kdir = os.path.join(ROOT, "kani")
    for name in sorted(os.listdir(kdir)):
        hj = os.path.join(kdir, name, "harnesses.json")
        if not os.path.exists(hj):
            continue
        with open(hj) as f:
            cfg = json.load(f)
        h = cfg.get("pairs", {}).get(ob_id)
        if not h:
            continue
        try:
            dst, cfg2, meta = prepare(name)
        except Exception:
            return None
        b = subprocess.run(["cargo", "kani", "--only-codegen"] + cfg.get("flags", []), cwd=dst, env=env(), capture_output=True, text=True)
        if b.returncode != 0:
            return None
        full = "harness::" + h
        r = run_one(dst, full, cfg.get("flags", []), 600, playback=True)
        if r["result"] == "FAILURE":
            test = r.get("playback_test")
            if not test:
                fn = full.split("::")[-1]
                test = f"#[test]\nfn kani_concrete_playback_{fn}() {{\n    {fn}();\n}}\n"
            return {"kind": "kani-playback", "crate": name, "harness": full, "test": test, "paired_with": ob_id,
                    "kani_output": r.get("output", "")[:1500]}
        return None
    return None


def native_replay(ci):
    """replay a Kani counterexample natively: the extracted functions are compiled by rustc (no verifier) and the
    recorded concrete values are fed to the harness body; the failed assertion panics."""
    if ci.get("kind") != "kani-playback":
        print("unknown concrete input kind")
        return 2
    dst, cfg, meta = prepare(ci["crate"])
    main = os.path.join(dst, "src", "main.rs")
    with open(main) as f:
        text = f.read()
    # the playback test goes into the module of the harness
    mod_path = ci["harness"].split("::")[:-1]
    test = ci["test"]
    inject = "\n#[cfg(test)]\nmod verif_playback {\n    use super::*;\n" + "".join(f"    use super::{'::'.join(mod_path)}::*;\n" if mod_path else "") + test + "\n}\n"
    with open(main, "w") as f:
        f.write(text.replace("fn main() {}", inject + "fn main() {}"))
    m = re.search(r"fn (kani_concrete_playback_\w+)", test)
    tname = m.group(1) if m else ""
    p = subprocess.run(["cargo", "kani", "playback", "-Z", "concrete-playback", "--", tname], cwd=dst, env=env(), capture_output=True, text=True)
    out = p.stdout + p.stderr
    print(out[-3000:])
    if "panicked" in out or "FAILED" in out:
        print("REPRODUCED natively on the extracted real code")
        return 1
    print("not reproduced")
    return 0


if __name__ == "__main__":
    r = run(sys.argv[1], sys.argv[2] if len(sys.argv) > 2 else "quick")
    r.pop("meta", None)
    r.pop("items", None)
    print(json.dumps(r, indent=1))
