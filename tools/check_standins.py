#!/usr/bin/env python3
"""R7: the local stand-ins for lsp_types structs used in the Verus units must have the same public fields (names and types)
as the vendored lsp-types crate that /repo builds against.  Exit 0 if they agree, 2 otherwise (never an alarm)."""
import glob, json, os, re, sys
HERE = os.path.dirname(os.path.abspath(__file__))
ROOT = os.path.dirname(HERE)
sys.path.insert(0, HERE)
import rscan

def lsp_version():
    lock = open("/repo/Cargo.lock").read()
    m = re.search(r'name = "lsp-types"\nversion = "([^"]+)"', lock)
    return m.group(1) if m else None

def fields_of(src, name):
    toks = rscan.tokenize(src)
    items = rscan.find_items(src, toks, 0, len(toks), "struct", name, depth0_only=False)
    items = items[:1] if items and all(src[i.start:i.end] == src[items[0].start:items[0].end] for i in items) else items
    if len(items) != 1 or items[0].body_open is None:
        return None
    it = items[0]
    out, i = [], it.body_open + 1
    while i < it.body_close:
        t = toks[i]
        if t.text == "#":
            i = toks[i + 1].mate + 1
            continue
        if t.text == "pub" and toks[i + 1].kind == "id" and toks[i + 2].text == ":":
            j = i + 3
            depth = 0
            while j < it.body_close and not (toks[j].text == "," and depth == 0):
                if toks[j].text == "<": depth += 1
                if toks[j].text == ">": depth -= 1
                if toks[j].kind == "open": j = toks[j].mate
                j += 1
            ty = rscan.norm(src[toks[i + 3].start:toks[j - 1].end])
            out.append((toks[i + 1].text, ty))
            i = j + 1
            continue
        i += 1
    return out

# stand-in name in the templates -> (lsp-types file, struct name, type renames used by the stand-in)
STANDINS = {
    "Position": ("lib.rs", "Position", {}),
    "PosRange": ("lib.rs", "Range", {}),
    "SemanticToken": ("semantic_tokens.rs", "SemanticToken", {}),
    "FoldingRange": ("folding_range.rs", "FoldingRange", {}),
    "TextDocumentContentChangeEvent": ("lib.rs", "TextDocumentContentChangeEvent", {"Range": "PosRange"}),
    "Location": ("lib.rs", "Location", {"Range": "PosRange"}),
    "TextEdit": ("lib.rs", "TextEdit", {"Range": "PosRange"}),
    "ParameterInformation": ("signature_help.rs", "ParameterInformation", {}),
    "SignatureInformation": ("signature_help.rs", "SignatureInformation", {}),
    "SignatureHelp": ("signature_help.rs", "SignatureHelp", {}),
    "Diagnostic": ("lib.rs", "Diagnostic", {"Range": "PosRange", "serde_json :: Value": "JsonValue"}),
}

def main():
    ver = lsp_version()
    cands = glob.glob(os.path.expanduser(f"~/.cargo/registry/src/*/lsp-types-{ver}/src"))
    if not cands:
        print(f"stand-in check: lsp-types {ver} source not found", file=sys.stderr)
        return 2
    base = cands[0]
    tpl = ""
    for f in glob.glob(os.path.join(ROOT, "contracts", "*.rs")):
        tpl += open(f).read() + "\n"
    bad = []
    report = {}
    for local, (file, orig, ren) in STANDINS.items():
        want = fields_of(open(os.path.join(base, file)).read(), orig)
        got = fields_of(tpl.replace("pub struct " + local + " {", "pub struct " + local + " {", 1), local)
        if want is None or got is None:
            bad.append(f"{local}: cannot find struct ({'vendored' if want is None else 'stand-in'})")
            continue
        def _ren(t):
            for a_, b_ in ren.items():
                if " " in a_:
                    t = t.replace(a_, b_)
            return " ".join(ren.get(w, w) for w in t.split(" "))
        want = [(n, _ren(t)) for n, t in want]
        report[local] = {"fields": got}
        if want != got:
            bad.append(f"{local}: stand-in fields {got} differ from lsp-types {ver} {want}")
    if bad:
        for b in bad:
            print("STAND-IN MISMATCH:", b, file=sys.stderr)
        return 2
    print(f"stand-ins agree with lsp-types {ver}: " + ", ".join(report))
    return 0

if __name__ == "__main__":
    sys.exit(main())
