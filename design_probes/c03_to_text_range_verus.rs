use vstd::prelude::*;
use std::ops::Range;
verus! {
pub assume_specification<Idx: Clone> [<Range<Idx> as Clone>::clone] (r: &Range<Idx>) -> (c: Range<Idx>)
    ensures cloned(r.start, c.start), cloned(r.end, c.end);
pub fn range_is_empty(r: &Range<usize>) -> (b: bool) ensures b == !(r.start < r.end) { !(r.start < r.end) }
pub struct SplError(pub Range<usize>, pub u8);
pub enum TokenType { Proc, Comment(String), Eof }
pub struct Token { pub token_type: TokenType, pub range: Range<usize>, pub errors: Vec<SplError> }
pub struct AstInfo { pub range: Range<usize>, pub errors: Vec<SplError> }

/// C06 tiling clause, assumed here
pub open spec fn tokens_tile(ts: Seq<Token>, n: int) -> bool {
    &&& forall|i: int| 0 <= i < ts.len() ==> (#[trigger] ts[i]).range.start <= ts[i].range.end <= n
    &&& forall|i: int, j: int| 0 <= i < j < ts.len() ==> (#[trigger] ts[i]).range.end <= (#[trigger] ts[j]).range.start
}
pub open spec fn range_in(ts: Seq<Token>, r: Range<usize>) -> bool {
    (r.start < r.end && r.end <= ts.len()) || (!(r.start < r.end) && r.end < ts.len())
}

pub trait ToRange { fn to_range(&self) -> Range<usize>; }
pub trait ToTextRange { fn to_text_range(&self, tokens: &[Token]) -> Range<usize>; }

impl AstInfo {
    pub fn slice<'a>(&self, tokens: &'a [Token]) -> (r: &'a [Token])
        requires self.range.start <= self.range.end <= tokens@.len(),
        ensures r@ == tokens@.subrange(self.range.start as int, self.range.end as int),
    {
        &tokens[self.range.clone()]
    }
}
impl ToRange for AstInfo {
    fn to_range(&self) -> (r: Range<usize>) ensures r == self.range {
        self.range.clone()
    }
}

impl AstInfo {
    // `impl ToTextRange for AstInfo` method, shown as inherent for the probe
    fn to_text_range(&self, tokens: &[Token]) -> (r: Range<usize>)
        requires range_in(tokens@, self.range),
        ensures
            self.range.start < self.range.end ==> r.start == tokens@[self.range.start as int].range.start && r.end == tokens@[self.range.end - 1].range.end,
            !(self.range.start < self.range.end) ==> r.start == r.end == tokens@[self.range.end as int].range.end,
            forall|n: int| tokens_tile(tokens@, n) ==> r.start <= r.end <= n,
    {
        match self.to_range() {
            range if range_is_empty(&range) => {
                let token = &tokens[range.end];
                let end_pos = token.range.end;
                end_pos..end_pos
            }
            range => {
                let tokens = &tokens[range];
                let start_pos = tokens.first().expect("Token slice is empty").range.start;
                let end_pos = tokens.last().expect("Token slice is empty").range.end;
                start_pos..end_pos
            }
        }
    }
}
}
fn main(){}
