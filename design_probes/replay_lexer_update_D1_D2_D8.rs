use spl_frontend::{lexer, TextChange};
fn run(old: &str, range: std::ops::Range<usize>, ins: &str) {
    let toks = lexer::lex(old);
    let mut new = old.to_string();
    new.replace_range(range.clone(), ins);
    let (upd, tc) = lexer::update(&new, toks, &TextChange { range, text: ins.to_string() });
    let fresh = lexer::lex(&new);
    println!("old={:?} new={:?} equal={} change={:?}", old, new, upd == fresh, tc);
    if upd != fresh {
        for (i, (a, b)) in upd.iter().zip(fresh.iter()).enumerate() {
            if a != b { println!("  [{}] update: {:?}\n      fresh : {:?}", i, a, b); }
        }
        if upd.len() != fresh.len() { println!("  len update={} fresh={}", upd.len(), fresh.len()); }
    }
}
fn main() {
    run("a b 0x", 0..0, "c");      // D1 tail errors not shifted
    run("xx 0x", 5..5, "g");       // D1 relexed errors relative
    run("'", 1..1, "a");           // D8 Unknown look-ahead
    run("//abc", 5..5, "\n");      // comment without newline (outside reach)
    println!("{:?}", lexer::lex("if\u{130}"));   // D2
    println!("{:?}", lexer::lex("a\u{130} b"));
}
