use vstd::prelude::*;
use std::ops::Range;
verus! {
pub assume_specification<Idx: Clone> [<Range<Idx> as Clone>::clone] (r: &Range<Idx>) -> (c: Range<Idx>)
    ensures cloned(r.start, c.start), cloned(r.end, c.end);
pub struct Position { pub line: u32, pub character: u32 }
pub struct PosRange { pub start: Position, pub end: Position }
pub struct TextDocumentContentChangeEvent { pub range: Option<PosRange>, pub range_length: Option<u32>, pub text: String }
pub struct TextChange { pub range: Range<usize>, pub text: String }

pub uninterp spec fn idx_of(p: Position, text: Seq<char>) -> usize;
pub uninterp spec fn replaced(s: Seq<char>, r: Range<usize>, t: Seq<char>) -> Seq<char>;

#[verifier::external_body]
fn as_index_range(pos_range: &PosRange, text: &str) -> (r: Range<usize>)
    ensures r.start == idx_of(pos_range.start, text@), r.end == idx_of(pos_range.end, text@)
{ unimplemented!() }

// shim for String::replace_range (no vstd spec)
#[verifier::external_body]
fn string_replace_range(s: &mut String, r: Range<usize>, t: &str)
    ensures final(s)@ == replaced(old(s)@, r, t@)
{ s.replace_range(r, t) }

// lifted closure of to_text_changes (captures: temp_text by mutable reference)
fn to_text_changes_closure(change: TextDocumentContentChangeEvent, temp_text: &mut String) -> (out: Option<TextChange>)
    ensures
        change.range is Some ==> out is Some
            && out->0.range.start == idx_of(change.range->0.start, old(temp_text)@)
            && out->0.range.end == idx_of(change.range->0.end, old(temp_text)@)
            && out->0.text@ == change.text@
            && final(temp_text)@ == replaced(old(temp_text)@, out->0.range, change.text@),
{
            if let TextDocumentContentChangeEvent {
                range: Some(range),
                text,
                ..
            } = change
            {
                let text_change = TextChange {
                    range: as_index_range(&range, &temp_text),
                    text,
                };
                string_replace_range(temp_text, text_change.range.clone(), &text_change.text);
                Some(text_change)
            } else {
                None
            }
}
}
fn main(){}
