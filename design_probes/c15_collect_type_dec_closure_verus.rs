use vstd::prelude::*;
use std::ops::Range;
verus! {
pub fn range_len(r: &Range<usize>) -> (n: usize) ensures n == (if r.start < r.end { r.end - r.start } else { 0 }) { if r.start < r.end { r.end - r.start } else { 0 } }
pub struct SplError(pub Range<usize>, pub u8);
pub enum IntResult {
    Int(u32),
    Err(String),
}
pub enum TokenType {
    LParen,
    RParen,
    LBracket,
    RBracket,
    LCurly,
    RCurly,
    Eq,
    Neq,
    Lt,
    Le,
    Gt,
    Ge,
    Assign,
    Colon,
    Comma,
    Semic,
    Plus,
    Minus,
    Times,
    Divide,
    If,
    Else,
    While,
    Array,
    Of,
    Proc,
    Ref,
    Type,
    Var,
    Ident(String),
    Char(char),
    Int(IntResult),
    Hex(IntResult),
    Comment(String),
    Unknown(String),
    Eof,
}
pub struct Token { pub token_type: TokenType, pub range: Range<usize>, pub errors: Vec<SplError> }
impl TokenType {
    pub const fn is_keyword(&self) -> (b: bool)
        ensures b == (self is If || self is Else || self is While || self is Array || self is Of || self is Proc || self is Ref || self is Type || self is Var)
    {
        use TokenType::*;
        matches!(
            self,
            If | Else | While | Array | Of | Proc | Ref | Type | Var
        )
    }
}
// R7 stand-ins for lsp_types
#[derive(Clone, Copy)]
pub struct Position { pub line: u32, pub character: u32 }
pub struct SemanticToken { pub delta_line: u32, pub delta_start: u32, pub length: u32, pub token_type: u32, pub token_modifiers_bitset: u32 }

/// Represents index in `TOKEN_TYPES`
#[repr(u32)]
pub enum SemanticTokenType {
    Comment,
    Keyword,
    Number,
    Type,
    Function,
    Parameter,
    Variable,
}

/// Represents bitwise *and* of indexes in `TOKEN_MODIFIERS`
#[repr(u32)]
pub enum SemanticTokenModifier {
    None,
    Declaration,
}

impl From<SemanticTokenType> for u32 {
    fn from(value: SemanticTokenType) -> Self {
        value as Self
    }
}

impl From<SemanticTokenModifier> for u32 {
    fn from(value: SemanticTokenModifier) -> Self {
        value as Self
    }
}



impl vstd::std_specs::convert::FromSpecImpl<SemanticTokenType> for u32 {
    open spec fn obeys_from_spec() -> bool { true }
    open spec fn from_spec(v: SemanticTokenType) -> u32 {
        match v { SemanticTokenType::Comment => 0, SemanticTokenType::Keyword => 1, SemanticTokenType::Number => 2, SemanticTokenType::Type => 3,
                  SemanticTokenType::Function => 4, SemanticTokenType::Parameter => 5, SemanticTokenType::Variable => 6 }
    }
}
impl vstd::std_specs::convert::FromSpecImpl<SemanticTokenModifier> for u32 {
    open spec fn obeys_from_spec() -> bool { true }
    open spec fn from_spec(v: SemanticTokenModifier) -> u32 { match v { SemanticTokenModifier::None => 0, SemanticTokenModifier::Declaration => 1 } }
}
pub uninterp spec fn pos_of(text: Seq<char>, index: usize) -> Position;
pub open spec fn pos_le(a: Position, b: Position) -> bool { a.line < b.line || (a.line == b.line && a.character <= b.character) }
pub open spec fn decode(prev: Position, t: SemanticToken) -> Position {
    Position { line: (prev.line + t.delta_line) as u32, character: (if t.delta_line == 0 { prev.character + t.delta_start } else { t.delta_start as int }) as u32 }
}
#[verifier::external_body]
pub fn as_position(index: usize, text: &str) -> (p: Position) ensures p == pos_of(text@, index) { unimplemented!() }

pub open spec fn class_of(t: TokenType) -> Option<u32> {
    match t {
        TokenType::Comment(_) => Some(0u32),
        TokenType::If | TokenType::Else | TokenType::While | TokenType::Array | TokenType::Of | TokenType::Proc | TokenType::Ref | TokenType::Type | TokenType::Var => Some(1u32),
        TokenType::Int(_) | TokenType::Hex(_) | TokenType::Char(_) => Some(2u32),
        _ => None,
    }
}

fn map_token(token: &Token, previous_token_pos: Position, text: &str) -> (r: Option<SemanticToken>)
    requires pos_le(previous_token_pos, pos_of(text@, token.range.start)), token.range.end - token.range.start <= u32::MAX,
    ensures
        (r is Some) == (class_of(token.token_type) is Some),
        r is Some ==> r->0.token_type == class_of(token.token_type)->0 && r->0.token_modifiers_bitset == 0
            && decode(previous_token_pos, r->0) == pos_of(text@, token.range.start),
{
    match &token.token_type {
        TokenType::Comment(_) => Some(create_semantic_token(
            token,
            previous_token_pos,
            text,
            SemanticTokenType::Comment.into(),
            SemanticTokenModifier::None.into(),
        )),
        TokenType::Hex(_) | TokenType::Char(_) | TokenType::Int(_) => Some(create_semantic_token(
            token,
            previous_token_pos,
            text,
            SemanticTokenType::Number.into(),
            SemanticTokenModifier::None.into(),
        )),
        token_type if token_type.is_keyword() => Some(create_semantic_token(
            token,
            previous_token_pos,
            text,
            SemanticTokenType::Keyword.into(),
            SemanticTokenModifier::None.into(),
        )),
        _ => None,
    }
}
fn create_semantic_token(
    token: &Token,
    previous_token_pos: Position,
    text: &str,
    token_type: u32,
    token_modifier: u32,
) -> (out: SemanticToken)
    requires pos_le(previous_token_pos, pos_of(text@, token.range.start)), token.range.end - token.range.start <= u32::MAX,
    ensures decode(previous_token_pos, out) == pos_of(text@, token.range.start),
        out.length == (if token.range.start < token.range.end { token.range.end - token.range.start } else { 0 }),
        out.token_type == token_type, out.token_modifiers_bitset == token_modifier,
{
    let Position { line, character } = as_position(token.range.start, text);
    let length = range_len(&token.range)
        .try_into()
        .expect("Cannot convert range length to u32");
    let delta_line = line - previous_token_pos.line;
    let delta_start = if line == previous_token_pos.line {
        character - previous_token_pos.character
    } else {
        character
    };

    SemanticToken {
        delta_line,
        delta_start,
        length,
        token_type,
        token_modifiers_bitset: token_modifier,
    }
}

pub assume_specification<Idx: Clone> [<Range<Idx> as Clone>::clone] (r: &Range<Idx>) -> (c: Range<Idx>)
    ensures cloned(r.start, c.start), cloned(r.end, c.end);
pub struct AstInfo {
    pub range: Range<usize>,
    pub errors: Vec<SplError>,
}
pub struct Reference<T> {
    pub reference: T,
    pub offset: usize,
}
pub struct IntLiteral {
    pub value: Option<u32>,
    pub info: AstInfo,
}
pub struct Identifier {
    pub value: String,
    pub info: AstInfo,
}
pub struct TypeDeclaration {
    pub doc: Vec<String>,
    pub name: Option<Identifier>,
    pub type_expr: Option<Reference<TypeExpression>>,
    pub info: AstInfo,
}
pub enum TypeExpression {
    NamedType(Identifier),
    ArrayType {
        size: Option<IntLiteral>,
        base_type: Option<Box<Reference<TypeExpression>>>,
        info: AstInfo,
    },
}
pub trait ToRange { spec fn range_spec(&self) -> Range<usize>; fn to_range(&self) -> (r: Range<usize>) ensures r == self.range_spec(); }
impl ToRange for AstInfo { open spec fn range_spec(&self) -> Range<usize> { self.range } fn to_range(&self) -> (r: Range<usize>) { self.range.clone() } }
impl ToRange for Identifier { open spec fn range_spec(&self) -> Range<usize> { self.info.range } fn to_range(&self) -> (r: Range<usize>) { self.info.to_range() } }

// lifted closure of collect_type_dec: |token| (captures td, text, previous_token_pos)
fn collect_type_dec_closure(token: &Token, td: &TypeDeclaration, text: &str, previous_token_pos: &mut Position) -> (r: Option<SemanticToken>)
    requires pos_le(*old(previous_token_pos), pos_of(text@, token.range.start)), token.range.end - token.range.start <= u32::MAX,
    ensures
        r is Some ==> decode(*old(previous_token_pos), r->0) == pos_of(text@, token.range.start) && *final(previous_token_pos) == pos_of(text@, token.range.start),
        r is None ==> *final(previous_token_pos) == *old(previous_token_pos),
{
            let semantic_token = if matches!(&td.name, Some(name) if name.to_range() == token.range)
            {
                Some(create_semantic_token(
                    token,
                    *previous_token_pos,
                    text,
                    SemanticTokenType::Type.into(),
                    SemanticTokenModifier::Declaration.into(),
                ))
            } else if matches!(token.token_type, TokenType::Ident(_)) {
                Some(create_semantic_token(
                    token,
                    *previous_token_pos,
                    text,
                    SemanticTokenType::Type.into(),
                    SemanticTokenModifier::None.into(),
                ))
            } else {
                map_token(token, *previous_token_pos, text)
            };
            if semantic_token.is_some() {
                *previous_token_pos = as_position(token.range.start, text);
            }
            semantic_token
        }
}
fn main(){}
