use vstd::prelude::*;
use std::ops::Range;
verus! {
pub struct SplError(pub Range<usize>, pub u8);
pub struct AstInfo {
    pub range: Range<usize>,
    pub errors: Vec<SplError>,
}

pub struct Reference<T> {
    pub reference: T,
    pub offset: usize,
}

pub struct IntLiteral {
    pub value: Option<u32>,
    pub info: AstInfo,
}

pub struct Identifier {
    pub value: String,
    pub info: AstInfo,
}

pub struct ArrayAccess {
    pub array: Box<Variable>,
    pub index: Option<Box<Reference<Expression>>>,
    pub info: AstInfo,
}

pub enum Variable {
    NamedVariable(Identifier),
    ArrayAccess(ArrayAccess),
}

pub enum Operator {
    Add, // +
    Sub, // -
    Mul, // *
    Div, // /
    Equ, // =
    Neq, // #
    Lst, // <
    Lse, // <=
    Grt, // >
    Gre, // >=
}

pub struct BinaryExpression {
    pub operator: Operator,
    pub lhs: Box<Expression>,
    pub rhs: Box<Expression>,
    pub info: AstInfo,
}

pub struct BracketedExpression {
    pub expr: Box<Expression>,
    pub info: AstInfo,
}

pub struct UnaryExpression {
    pub operator: Operator,
    pub expr: Box<Expression>,
    pub info: AstInfo,
}

pub enum Expression {
    Binary(BinaryExpression),
    Bracketed(BracketedExpression),
    IntLiteral(IntLiteral),
    Unary(UnaryExpression),
    Variable(Variable),
    Error(AstInfo),
}

pub struct TypeDeclaration {
    pub doc: Vec<String>,
    pub name: Option<Identifier>,
    pub type_expr: Option<Reference<TypeExpression>>,
    pub info: AstInfo,
}

pub enum TypeExpression {
    NamedType(Identifier),
    ArrayType {
        size: Option<IntLiteral>,
        base_type: Option<Box<Reference<TypeExpression>>>,
        info: AstInfo,
    },
}

pub enum VariableDeclaration {
    Valid {
        doc: Vec<String>,
        name: Option<Identifier>,
        type_expr: Option<Reference<TypeExpression>>,
        info: AstInfo,
    },
    Error(AstInfo),
}

pub enum ParameterDeclaration {
    Valid {
        doc: Vec<String>,
        is_ref: bool,
        name: Option<Identifier>,
        type_expr: Option<Reference<TypeExpression>>,
        info: AstInfo,
    },
    Error(AstInfo),
}

pub struct CallStatement {
    pub name: Identifier,
    pub arguments: Vec<Reference<Expression>>,
    pub info: AstInfo,
}

pub struct Assignment {
    pub variable: Variable,
    pub expr: Option<Reference<Expression>>,
    pub info: AstInfo,
}

pub struct IfStatement {
    pub condition: Option<Reference<Expression>>,
    pub if_branch: Option<Box<Reference<Statement>>>,
    pub else_branch: Option<Box<Reference<Statement>>>,
    pub info: AstInfo,
}

pub struct WhileStatement {
    pub condition: Option<Reference<Expression>>,
    pub statement: Option<Box<Reference<Statement>>>,
    pub info: AstInfo,
}

pub struct BlockStatement {
    pub statements: Vec<Reference<Statement>>,
    pub info: AstInfo,
}

pub enum Statement {
    Empty(AstInfo),
    Assignment(Assignment),
    Call(CallStatement),
    If(IfStatement),
    While(WhileStatement),
    Block(BlockStatement),
    Error(AstInfo),
}

pub struct ProcedureDeclaration {
    pub doc: Vec<String>,
    pub name: Option<Identifier>,
    pub parameters: Vec<Reference<ParameterDeclaration>>,
    pub variable_declarations: Vec<Reference<VariableDeclaration>>,
    pub statements: Vec<Reference<Statement>>,
    pub info: AstInfo,
}

pub enum GlobalDeclaration {
    Type(TypeDeclaration),
    Procedure(ProcedureDeclaration),
    Error(AstInfo),
}

pub struct Program {
    pub global_declarations: Vec<Reference<GlobalDeclaration>>,
    pub info: AstInfo,
}
impl<T> std::ops::Deref for Reference<T> {
    type Target = T;
    fn deref(&self) -> (r: &Self::Target) ensures *r == self.reference {
        &self.reference
    }
}

pub uninterp spec fn shift_errs(s: Seq<SplError>, off: usize) -> Seq<SplError>;
pub open spec fn se_var(v: Variable) -> Seq<SplError> decreases v {
    match v {
        Variable::NamedVariable(n) => n.info.errors@,
        Variable::ArrayAccess(a) => a.info.errors@ + se_var(*a.array) + (match a.index { Some(ix) => shift_errs(se_expr(ix.reference), ix.offset), None => Seq::empty() }),
    }
}
pub open spec fn se_expr(e: Expression) -> Seq<SplError> decreases e {
    match e {
        Expression::Binary(b) => b.info.errors@ + se_expr(*b.lhs) + se_expr(*b.rhs),
        Expression::Bracketed(b) => b.info.errors@ + se_expr(*b.expr),
        Expression::IntLiteral(i) => i.info.errors@,
        Expression::Unary(u) => u.info.errors@ + se_expr(*u.expr),
        Expression::Variable(v) => se_var(v),
        Expression::Error(i) => i.errors@,
    }
}
pub trait ErrorContainer {
    spec fn spec_errors(&self) -> Seq<SplError>;
    fn errors(&self) -> (r: Vec<SplError>)
        ensures r@ == self.spec_errors();
}
pub trait Shiftable {
    fn shift(self, offset: usize) -> Self;
}
#[verifier::external_body]
fn vec_shift(v: Vec<SplError>, offset: usize) -> (r: Vec<SplError>) ensures r@ == shift_errs(v@, offset) { unimplemented!() }
impl Clone for SplError { #[verifier::external_body] fn clone(&self) -> (r: Self) ensures r == *self { unimplemented!() } }
#[verifier::external_body]
fn vec_extend(a: &mut Vec<SplError>, b: Vec<SplError>) ensures final(a)@ == old(a)@ + b@ { a.extend(b) }
impl ErrorContainer for AstInfo {
    open spec fn spec_errors(&self) -> Seq<SplError> { self.errors@ }
    #[verifier::exec_allows_no_decreases_clause]
    fn errors(&self) -> Vec<SplError> {
        self.errors.clone()
    }
}

impl ErrorContainer for IntLiteral {
    open spec fn spec_errors(&self) -> Seq<SplError> { self.info.errors@ }
    #[verifier::exec_allows_no_decreases_clause]
    fn errors(&self) -> Vec<SplError> {
        self.info.errors()
    }
}

impl ErrorContainer for Identifier {
    open spec fn spec_errors(&self) -> Seq<SplError> { self.info.errors@ }
    #[verifier::exec_allows_no_decreases_clause]
    fn errors(&self) -> Vec<SplError> {
        self.info.errors()
    }
}

impl ErrorContainer for ArrayAccess {
    open spec fn spec_errors(&self) -> Seq<SplError> { se_var(Variable::ArrayAccess(*self)) }
    #[verifier::exec_allows_no_decreases_clause]
    fn errors(&self) -> Vec<SplError> {
        let mut errors = self.info.errors();
        vec_extend(&mut errors, self.array.errors());
        if let Some(index) = &self.index {
            vec_extend(&mut errors, vec_shift(index.errors(), index.offset))
        }
        errors
    }
}

impl ErrorContainer for Variable {
    open spec fn spec_errors(&self) -> Seq<SplError> { se_var(*self) }
    #[verifier::exec_allows_no_decreases_clause]
    fn errors(&self) -> Vec<SplError> {
        match self {
            Self::ArrayAccess(a) => a.errors(),
            Self::NamedVariable(n) => n.errors(),
        }
    }
}

impl ErrorContainer for BinaryExpression {
    open spec fn spec_errors(&self) -> Seq<SplError> { se_expr(Expression::Binary(*self)) }
    #[verifier::exec_allows_no_decreases_clause]
    fn errors(&self) -> Vec<SplError> {
        let mut errors = self.info.errors();
        vec_extend(&mut errors, self.lhs.errors());
        vec_extend(&mut errors, self.rhs.errors());
        errors
    }
}

impl ErrorContainer for BracketedExpression {
    open spec fn spec_errors(&self) -> Seq<SplError> { se_expr(Expression::Bracketed(*self)) }
    #[verifier::exec_allows_no_decreases_clause]
    fn errors(&self) -> Vec<SplError> {
        let mut errors = self.info.errors();
        vec_extend(&mut errors, self.expr.errors());
        errors
    }
}

impl ErrorContainer for UnaryExpression {
    open spec fn spec_errors(&self) -> Seq<SplError> { se_expr(Expression::Unary(*self)) }
    #[verifier::exec_allows_no_decreases_clause]
    fn errors(&self) -> Vec<SplError> {
        let mut errors = self.info.errors();
        vec_extend(&mut errors, self.expr.errors());
        errors
    }
}

impl ErrorContainer for Expression {
    open spec fn spec_errors(&self) -> Seq<SplError> { se_expr(*self) }
    #[verifier::exec_allows_no_decreases_clause]
    fn errors(&self) -> Vec<SplError> {
        match self {
            Self::Binary(b) => b.errors(),
            Self::Bracketed(b) => b.errors(),
            Self::Error(info) => info.errors(),
            Self::IntLiteral(i) => i.errors(),
            Self::Variable(v) => v.errors(),
            Self::Unary(u) => u.errors(),
        }
    }
}

impl ErrorContainer for Assignment {
    open spec fn spec_errors(&self) -> Seq<SplError> { self.info.errors@ + se_var(self.variable) + (match self.expr { Some(e) => shift_errs(se_expr(e.reference), e.offset), None => Seq::empty() }) }
    #[verifier::exec_allows_no_decreases_clause]
    fn errors(&self) -> Vec<SplError> {
        let mut errors = self.info.errors();
        vec_extend(&mut errors, self.variable.errors());
        if let Some(expr) = &self.expr {
            vec_extend(&mut errors, vec_shift(expr.errors(), expr.offset));
        }
        errors
    }
}
}
fn main(){}
