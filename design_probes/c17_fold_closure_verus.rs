use vstd::prelude::*;
use std::ops::Range;
verus! {
pub assume_specification<Idx: Clone> [<Range<Idx> as Clone>::clone] (r: &Range<Idx>) -> (c: Range<Idx>)
    ensures cloned(r.start, c.start), cloned(r.end, c.end);
pub open spec fn tokens_tile(ts: Seq<Token>, n: int) -> bool {
    &&& forall|i: int| 0 <= i < ts.len() ==> (#[trigger] ts[i]).range.start <= ts[i].range.end <= n
    &&& forall|i: int, j: int| 0 <= i < j < ts.len() ==> (#[trigger] ts[i]).range.end <= (#[trigger] ts[j]).range.start
}
pub open spec fn pos_le(a: Position, b: Position) -> bool { a.line < b.line || (a.line == b.line && a.character <= b.character) }
/// monotonicity of the position function on char boundaries: discharged (bounded) by Kani, assumed here
pub open spec fn pos_monotone(text: Seq<char>) -> bool { forall|a: usize, b: usize| a <= b ==> pos_le(#[trigger] pos_of(a, text), #[trigger] pos_of(b, text)) }
/// index of the first non-comment token in ts, or ts.len()
pub open spec fn first_code(ts: Seq<Token>) -> int decreases ts.len() {
    if ts.len() == 0 { 0 } else if ts[0].token_type is Comment { 1 + first_code(ts.subrange(1, ts.len() as int)) } else { 0 }
}
pub struct SplError(pub Range<usize>, pub u8);
pub struct AstInfo {
    pub range: Range<usize>,
    pub errors: Vec<SplError>,
}

pub struct Reference<T> {
    pub reference: T,
    pub offset: usize,
}

pub struct IntLiteral {
    pub value: Option<u32>,
    pub info: AstInfo,
}

pub struct Identifier {
    pub value: String,
    pub info: AstInfo,
}

pub struct ArrayAccess {
    pub array: Box<Variable>,
    pub index: Option<Box<Reference<Expression>>>,
    pub info: AstInfo,
}

pub enum Variable {
    NamedVariable(Identifier),
    ArrayAccess(ArrayAccess),
}

pub enum Operator {
    Add, // +
    Sub, // -
    Mul, // *
    Div, // /
    Equ, // =
    Neq, // #
    Lst, // <
    Lse, // <=
    Grt, // >
    Gre, // >=
}

pub struct BinaryExpression {
    pub operator: Operator,
    pub lhs: Box<Expression>,
    pub rhs: Box<Expression>,
    pub info: AstInfo,
}

pub struct BracketedExpression {
    pub expr: Box<Expression>,
    pub info: AstInfo,
}

pub struct UnaryExpression {
    pub operator: Operator,
    pub expr: Box<Expression>,
    pub info: AstInfo,
}

pub enum Expression {
    Binary(BinaryExpression),
    Bracketed(BracketedExpression),
    IntLiteral(IntLiteral),
    Unary(UnaryExpression),
    Variable(Variable),
    Error(AstInfo),
}

pub struct TypeDeclaration {
    pub doc: Vec<String>,
    pub name: Option<Identifier>,
    pub type_expr: Option<Reference<TypeExpression>>,
    pub info: AstInfo,
}

pub enum TypeExpression {
    NamedType(Identifier),
    ArrayType {
        size: Option<IntLiteral>,
        base_type: Option<Box<Reference<TypeExpression>>>,
        info: AstInfo,
    },
}

pub enum VariableDeclaration {
    Valid {
        doc: Vec<String>,
        name: Option<Identifier>,
        type_expr: Option<Reference<TypeExpression>>,
        info: AstInfo,
    },
    Error(AstInfo),
}

pub enum ParameterDeclaration {
    Valid {
        doc: Vec<String>,
        is_ref: bool,
        name: Option<Identifier>,
        type_expr: Option<Reference<TypeExpression>>,
        info: AstInfo,
    },
    Error(AstInfo),
}

pub struct CallStatement {
    pub name: Identifier,
    pub arguments: Vec<Reference<Expression>>,
    pub info: AstInfo,
}

pub struct Assignment {
    pub variable: Variable,
    pub expr: Option<Reference<Expression>>,
    pub info: AstInfo,
}

pub struct IfStatement {
    pub condition: Option<Reference<Expression>>,
    pub if_branch: Option<Box<Reference<Statement>>>,
    pub else_branch: Option<Box<Reference<Statement>>>,
    pub info: AstInfo,
}

pub struct WhileStatement {
    pub condition: Option<Reference<Expression>>,
    pub statement: Option<Box<Reference<Statement>>>,
    pub info: AstInfo,
}

pub struct BlockStatement {
    pub statements: Vec<Reference<Statement>>,
    pub info: AstInfo,
}

pub enum Statement {
    Empty(AstInfo),
    Assignment(Assignment),
    Call(CallStatement),
    If(IfStatement),
    While(WhileStatement),
    Block(BlockStatement),
    Error(AstInfo),
}

pub struct ProcedureDeclaration {
    pub doc: Vec<String>,
    pub name: Option<Identifier>,
    pub parameters: Vec<Reference<ParameterDeclaration>>,
    pub variable_declarations: Vec<Reference<VariableDeclaration>>,
    pub statements: Vec<Reference<Statement>>,
    pub info: AstInfo,
}

pub enum GlobalDeclaration {
    Type(TypeDeclaration),
    Procedure(ProcedureDeclaration),
    Error(AstInfo),
}

pub struct Program {
    pub global_declarations: Vec<Reference<GlobalDeclaration>>,
    pub info: AstInfo,
}
pub enum TokenType { Proc, Comment(String), Eof }
pub struct Token {
    pub token_type: TokenType,
    pub range: Range<usize>,
    pub errors: Vec<SplError>,
}
pub struct AnalyzedSource { pub text: String, pub tokens: Vec<Token>, pub ast: Program }
pub struct Position { pub line: u32, pub character: u32 }
pub struct PosRange { pub start: Position, pub end: Position }
pub enum FoldingRangeKind { Comment, Imports, Region }
pub struct FoldingRange { pub start_line: u32, pub start_character: Option<u32>, pub end_line: u32, pub end_character: Option<u32>, pub kind: Option<FoldingRangeKind>, pub collapsed_text: Option<String> }
impl Default for FoldingRange {
    #[verifier::external_body]
    fn default() -> (r: Self) ensures r.start_character is None, r.end_character is None, r.collapsed_text is None { unimplemented!() }
}

pub uninterp spec fn pos_of(index: usize, text: Seq<char>) -> Position;
#[verifier::external_body]
pub fn as_position(index: usize, text: &str) -> (p: Position) ensures p == pos_of(index, text@) { unimplemented!() }
pub fn as_pos_range(range: &Range<usize>, text: &str) -> (r: PosRange)
    ensures r.start == pos_of(range.start, text@), r.end == pos_of(range.end, text@)
{
    PosRange {
        start: as_position(range.start, text),
        end: as_position(range.end, text),
    }
}

pub trait ToRange { spec fn range_spec(&self) -> Range<usize>; fn to_range(&self) -> (r: Range<usize>) ensures r == self.range_spec(); }
pub trait Shiftable: Sized {
    spec fn shift_ok(self, offset: usize) -> bool;
    spec fn shift_spec(self, offset: usize) -> Self;
    fn shift(self, offset: usize) -> (r: Self) requires self.shift_ok(offset) ensures r == self.shift_spec(offset);
}
impl Shiftable for Range<usize> {
    open spec fn shift_ok(self, offset: usize) -> bool { self.start + offset <= usize::MAX && self.end + offset <= usize::MAX }
    open spec fn shift_spec(self, offset: usize) -> Self { ((self.start + offset) as usize)..((self.end + offset) as usize) }
    fn shift(self, offset: usize) -> (r: Self)
    {
        (self.start + offset)..(self.end + offset)
    }
}
impl ToRange for AstInfo { open spec fn range_spec(&self) -> Range<usize> { self.range } fn to_range(&self) -> (r: Range<usize>) { self.range.clone() } }
impl ToRange for ProcedureDeclaration { open spec fn range_spec(&self) -> Range<usize> { self.info.range } fn to_range(&self) -> (r: Range<usize>) { self.info.to_range() } }

fn skip_leading_comments(tokens: &[Token]) -> (r: &[Token])
    ensures
        r@.len() <= tokens@.len(),
        r@ == tokens@.subrange(tokens@.len() - r@.len(), tokens@.len() as int),
        forall|i: int| 0 <= i < tokens@.len() - r@.len() ==> (#[trigger] tokens@[i]).token_type is Comment,
        r@.len() > 0 ==> !(r@[0].token_type is Comment),
        tokens@.len() - r@.len() == first_code(tokens@),
    decreases tokens@.len(),
{
    if let Some((
        Token {
            token_type: TokenType::Comment(_),
            ..
        },
        rest,
    )) = tokens.split_first()
    {
        let r = skip_leading_comments(rest);
        proof {
            assert(rest@ == tokens@.subrange(1, tokens@.len() as int));
            assert forall|i: int| 0 <= i < tokens@.len() - r@.len() implies (#[trigger] tokens@[i]).token_type is Comment by {
                if i > 0 { assert(tokens@[i] == rest@[i - 1]); }
            }
        }
        r
    } else {
        tokens
    }
}

// lifted closure #2 of `fold` (captures: doc)
fn fold_closure(p: &ProcedureDeclaration, offset: usize, doc: &AnalyzedSource) -> (fr: FoldingRange)
    requires p.info.range.start <= p.info.range.end, p.info.range.end + offset <= doc.tokens@.len(), p.info.range.end + offset <= usize::MAX,
        tokens_tile(doc.tokens@, doc.text@.len() as int), pos_monotone(doc.text@),
    ensures
        fr.start_line <= fr.end_line,
        ({  let lo = p.info.range.start + offset; let hi = p.info.range.end + offset;
            let k = lo + first_code(doc.tokens@.subrange(lo, hi));
            k < hi ==> fr.start_line == pos_of(doc.tokens@[k].range.start, doc.text@).line
                    && fr.end_line == pos_of(doc.tokens@[hi - 1].range.end, doc.text@).line }),
{
                let proc_tokens = &doc.tokens[p.to_range().shift(offset)];
                let tokens = skip_leading_comments(proc_tokens);
                let text_range = if let (Some(first), Some(last)) = (tokens.first(), tokens.last())
                {
                    first.range.start..last.range.end
                } else {
                    0..0
                };
                let range = as_pos_range(&text_range, &doc.text);
                FoldingRange {
                    start_line: range.start.line,
                    end_line: range.end.line,
                    kind: Some(FoldingRangeKind::Region),
                    ..Default::default()
                }
}
}
fn main(){}
