use vstd::prelude::*;
use std::ops::Range;
verus! {

pub struct SplError(pub Range<usize>, pub u8);
pub enum TokenType { Comma, Ident(String), Comment(String), Eof }
pub struct Token {
    pub token_type: TokenType,
    pub range: Range<usize>,
    pub errors: Vec<SplError>,
}
pub struct ParameterInformation { pub x: u8 }

pub open spec fn count_commas_before(tokens: Seq<Token>, index: int, upto: int) -> nat
    decreases upto
{
    if upto <= 0 { 0 } else {
        count_commas_before(tokens, index, upto - 1) +
        (if tokens[upto-1].range.start < index && tokens[upto-1].token_type is Comma { 1nat } else { 0nat })
    }
}

pub open spec fn sorted_by_start(tokens: Seq<Token>) -> bool {
    forall|i: int, j: int| 0 <= i < j < tokens.len() ==> tokens[i].range.start <= tokens[j].range.start
}

proof fn lemma_count_stable(tokens: Seq<Token>, index: int, from: int, to: int)
    requires 0 <= from <= to <= tokens.len(), forall|k: int| from <= k < to ==> tokens[k].range.start >= index,
    ensures count_commas_before(tokens, index, to) == count_commas_before(tokens, index, from),
    decreases to - from
{
    if from < to { lemma_count_stable(tokens, index, from, to - 1); }
}

fn get_active_param(
    params: &[ParameterInformation],
    tokens: &[Token],
    index: &usize,
) -> (r: Option<u32>)
    requires
        sorted_by_start(tokens@),
        tokens@.len() < u32::MAX,
    ensures
        params@.len() == 0 ==> r is None,
        params@.len() > 0 ==> r is Some && r->0 as nat == count_commas_before(tokens@, *index as int, tokens@.len() as int),
{
    if params.is_empty() {
        None
    } else {
        let mut param_index = 0;
        for token in it: tokens
            invariant_except_break
                param_index as nat == count_commas_before(tokens@, *index as int, it.index@ as int),
            invariant
                sorted_by_start(tokens@),
                tokens@.len() < u32::MAX,
                it.seq().len() == tokens@.len(),
                forall|k: int| 0 <= k < tokens@.len() ==> *it.seq()[k] == tokens@[k],
                0 <= it.index@ <= tokens@.len(),
                param_index <= it.index@,
            ensures
                param_index as nat == count_commas_before(tokens@, *index as int, tokens@.len() as int),
        {
            assert(*token == tokens@[it.index@ as int]);
            if token.range.start >= *index {
                proof { lemma_count_stable(tokens@, *index as int, it.index@ as int, tokens@.len() as int); }
                break;
            }
            if matches!(token.token_type, TokenType::Comma) {
                param_index += 1;
            }
        }
        
        Some(param_index)
    }
}
}
fn main() {}
