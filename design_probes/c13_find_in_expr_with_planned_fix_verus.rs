use vstd::prelude::*;
use std::ops::Range;
verus! {
pub struct SplError(pub Range<usize>, pub u8);
pub struct AstInfo {
    pub range: Range<usize>,
    pub errors: Vec<SplError>,
}

pub struct Reference<T> {
    pub reference: T,
    pub offset: usize,
}

pub struct IntLiteral {
    pub value: Option<u32>,
    pub info: AstInfo,
}

pub struct Identifier {
    pub value: String,
    pub info: AstInfo,
}

pub struct ArrayAccess {
    pub array: Box<Variable>,
    pub index: Option<Box<Reference<Expression>>>,
    pub info: AstInfo,
}

pub enum Variable {
    NamedVariable(Identifier),
    ArrayAccess(ArrayAccess),
}

pub enum Operator {
    Add, // +
    Sub, // -
    Mul, // *
    Div, // /
    Equ, // =
    Neq, // #
    Lst, // <
    Lse, // <=
    Grt, // >
    Gre, // >=
}

pub struct BinaryExpression {
    pub operator: Operator,
    pub lhs: Box<Expression>,
    pub rhs: Box<Expression>,
    pub info: AstInfo,
}

pub struct BracketedExpression {
    pub expr: Box<Expression>,
    pub info: AstInfo,
}

pub struct UnaryExpression {
    pub operator: Operator,
    pub expr: Box<Expression>,
    pub info: AstInfo,
}

pub enum Expression {
    Binary(BinaryExpression),
    Bracketed(BracketedExpression),
    IntLiteral(IntLiteral),
    Unary(UnaryExpression),
    Variable(Variable),
    Error(AstInfo),
}

pub struct TypeDeclaration {
    pub doc: Vec<String>,
    pub name: Option<Identifier>,
    pub type_expr: Option<Reference<TypeExpression>>,
    pub info: AstInfo,
}

pub enum TypeExpression {
    NamedType(Identifier),
    ArrayType {
        size: Option<IntLiteral>,
        base_type: Option<Box<Reference<TypeExpression>>>,
        info: AstInfo,
    },
}

pub enum VariableDeclaration {
    Valid {
        doc: Vec<String>,
        name: Option<Identifier>,
        type_expr: Option<Reference<TypeExpression>>,
        info: AstInfo,
    },
    Error(AstInfo),
}

pub enum ParameterDeclaration {
    Valid {
        doc: Vec<String>,
        is_ref: bool,
        name: Option<Identifier>,
        type_expr: Option<Reference<TypeExpression>>,
        info: AstInfo,
    },
    Error(AstInfo),
}

pub struct CallStatement {
    pub name: Identifier,
    pub arguments: Vec<Reference<Expression>>,
    pub info: AstInfo,
}

pub struct Assignment {
    pub variable: Variable,
    pub expr: Option<Reference<Expression>>,
    pub info: AstInfo,
}

pub struct IfStatement {
    pub condition: Option<Reference<Expression>>,
    pub if_branch: Option<Box<Reference<Statement>>>,
    pub else_branch: Option<Box<Reference<Statement>>>,
    pub info: AstInfo,
}

pub struct WhileStatement {
    pub condition: Option<Reference<Expression>>,
    pub statement: Option<Box<Reference<Statement>>>,
    pub info: AstInfo,
}

pub struct BlockStatement {
    pub statements: Vec<Reference<Statement>>,
    pub info: AstInfo,
}

pub enum Statement {
    Empty(AstInfo),
    Assignment(Assignment),
    Call(CallStatement),
    If(IfStatement),
    While(WhileStatement),
    Block(BlockStatement),
    Error(AstInfo),
}

pub struct ProcedureDeclaration {
    pub doc: Vec<String>,
    pub name: Option<Identifier>,
    pub parameters: Vec<Reference<ParameterDeclaration>>,
    pub variable_declarations: Vec<Reference<VariableDeclaration>>,
    pub statements: Vec<Reference<Statement>>,
    pub info: AstInfo,
}

pub enum GlobalDeclaration {
    Type(TypeDeclaration),
    Procedure(ProcedureDeclaration),
    Error(AstInfo),
}

pub struct Program {
    pub global_declarations: Vec<Reference<GlobalDeclaration>>,
    pub info: AstInfo,
}
impl<T> std::ops::Deref for Reference<T> {
    type Target = T;
    fn deref(&self) -> (r: &Self::Target) ensures *r == self.reference {
        &self.reference
    }
}
impl Clone for Identifier {
    #[verifier::external_body]
    fn clone(&self) -> (r: Self) ensures r == *self { unimplemented!() }
}
// R4 shims
#[verifier::external_body]
fn string_eq_str(a: &String, b: &str) -> (r: bool) ensures r == (a@ == b@) { a == b }
#[verifier::external_body]
fn vec_extend(a: &mut Vec<Identifier>, b: Vec<Identifier>) ensures final(a)@ == old(a)@ + b@ { a.extend(b) }


pub uninterp spec fn shift_ids(s: Seq<Identifier>, off: usize) -> Seq<Identifier>;
pub open spec fn occ_var(v: Variable, name: Seq<char>) -> Seq<Identifier> decreases v {
    match v {
        Variable::NamedVariable(id) => if id.value@ == name { seq![id] } else { Seq::empty() },
        Variable::ArrayAccess(a) => occ_var(*a.array, name) + (match a.index { Some(ix) => shift_ids(occ_expr(ix.reference, name), ix.offset), None => Seq::empty() }),
    }
}
pub open spec fn occ_expr(e: Expression, name: Seq<char>) -> Seq<Identifier> decreases e {
    match e {
        Expression::Variable(v) => occ_var(v, name),
        Expression::Binary(b) => occ_expr(*b.lhs, name) + occ_expr(*b.rhs, name),
        Expression::Bracketed(b) => occ_expr(*b.expr, name),
        Expression::Unary(u) => occ_expr(*u.expr, name),
        Expression::IntLiteral(_) => Seq::empty(),
        Expression::Error(_) => Seq::empty(),
    }
}
#[verifier::external_body]
fn vec_shift_ids(v: Vec<Identifier>, off: usize) -> (r: Vec<Identifier>) ensures r@ == shift_ids(v@, off) { unimplemented!() }
fn find_in_variable(var: &Variable, name: &str) -> (r: Vec<Identifier>)
    ensures r@ == occ_var(*var, name@)
    decreases var, 0nat
{
        use Variable::*;
        match var {
            NamedVariable(ident) => {
                if string_eq_str(&ident.value, name) {
                    vec![ident.clone()]
                } else {
                    Vec::new()
                }
            }
            ArrayAccess(a) => {
                let mut idents = find_in_variable(&a.array, name);
                if let Some(index) = &a.index {
                    let new_idents = vec_shift_ids(find_in_expression(index, name), index.offset);
                    vec_extend(&mut idents, new_idents);
                }
                idents
            }
        }
    }
fn find_in_expression(expr: &Expression, name: &str) -> (r: Vec<Identifier>)
    ensures r@ == occ_expr(*expr, name@)
    decreases expr, 1nat
{
        use Expression::*;
        match expr {
            Variable(v) => find_in_variable(v, name),
            Binary(b) => {
                let mut idents = Vec::new();
                let new_idents = find_in_expression(&b.lhs, name);
                vec_extend(&mut idents, new_idents);
                let new_idents = find_in_expression(&b.rhs, name);
                vec_extend(&mut idents, new_idents);
                idents
            }
            Bracketed(b) => find_in_expression(&b.expr, name),
            Unary(u) => find_in_expression(&u.expr, name),
            _ => Vec::new(),
        }
    }
}
fn main(){}
