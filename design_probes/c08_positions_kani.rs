use lsp_types::{Position, Range as PosRange};
type TextRange = std::ops::Range<usize>;
/// Converts a string index to a `Position`.
/// If the index is out of bounds, the last possible position is returned.
pub fn as_position(index: usize, text: &str) -> Position {
    let mut line = 0;
    let mut character = 0;
    for (i, c) in text.char_indices() {
        if i == index {
            break;
        }
        if c == '\n' {
            line += 1;
            character = 0;
        } else {
            character += 1;
        }
    }
    Position { line, character }
}

pub fn as_pos_range(range: &TextRange, text: &str) -> PosRange {
    PosRange {
        start: as_position(range.start, text),
        end: as_position(range.end, text),
    }
}

fn as_index_range(pos_range: &PosRange, text: &str) -> TextRange {
    let PosRange { start, end } = pos_range;
    let start = get_insertion_index(start, text);
    let end = get_insertion_index(end, text);
    start..end
}

/// Note: This is the insertion index,
/// so it can be after the last character.
/// Therefore the text slice should not be indexed with this index.
pub fn get_insertion_index(position: &Position, text: &str) -> usize {
    let mut line = 0;
    let mut character = 0;
    let pos = (position.line, position.character);
    for (i, c) in text.char_indices() {
        if (line, character) == pos {
            return i;
        }
        if c == '\n' {
            line += 1;
            character = 0;
        } else {
            character += 1;
        }
    }
    text.len()
}


#[cfg(kani)]
mod spec {
    use super::*;
    /// LSP rules: UTF-16 columns; line terminators \n, \r\n, \r; column past end of line -> end of line; line past end -> end of text
    pub fn offset_of(p: &Position, text: &str) -> usize {
        let b = text.as_bytes();
        let mut i = 0usize; let mut line = 0u32;
        // find line start
        while line < p.line {
            if i >= b.len() { return b.len(); }
            if b[i] == b'\n' { line += 1; i += 1; }
            else if b[i] == b'\r' { line += 1; i += 1; if i < b.len() && b[i] == b'\n' { i += 1; } }
            else { i += 1; }
        }
        let mut col = 0u32;
        while i < b.len() && col < p.character {
            if b[i] == b'\n' || b[i] == b'\r' { return i; }
            let (w, u) = if b[i] < 0x80 {(1,1)} else if b[i] < 0xE0 {(2,1)} else if b[i] < 0xF0 {(3,1)} else {(4,2)};
            i += w; col += u;
        }
        i
    }
}
#[cfg(kani)]
mod verif_kani {
    use super::*;
    const CH: [&str; 6] = ["a", "\n", "\r", "\u{e9}", "\u{20ac}", "\u{1F600}"];
    fn build(buf: &mut [u8; 12], k: usize) -> usize {
        let mut n = 0;
        let mut j = 0;
        while j < k {
            let c: usize = kani::any();
            kani::assume(c < 6);
            let s = CH[c].as_bytes();
            let mut t = 0;
            while t < s.len() { buf[n] = s[t]; n += 1; t += 1; }
            j += 1;
        }
        n
    }
    #[kani::proof]
    #[kani::unwind(14)]
    fn insertion_index_matches_lsp_k2() {
        let mut buf = [0u8; 12];
        let k: usize = kani::any();
        kani::assume(k <= 2);
        let n = build(&mut buf, k);
        let s = std::str::from_utf8(&buf[..n]).unwrap();
        let p = Position { line: kani::any(), character: kani::any() };
        kani::assume(p.line <= 4 && p.character <= 7);
        let got = get_insertion_index(&p, s);
        let want = spec::offset_of(&p, s);
        assert!(got == want);
    }
}

#[cfg(kani)]
mod verif_raw {
    use super::*;
    fn no_lone_cr(b: &[u8]) -> bool { let mut i = 0; while i < b.len() { if b[i] == b'\r' && !(i + 1 < b.len() && b[i+1] == b'\n') { return false; } i += 1; } true }
    #[kani::proof]
    #[kani::unwind(5)]
    fn raw_insertion_index_n3() {
        let b: [u8; 3] = kani::any();
        let n: usize = kani::any();
        kani::assume(n <= 3);
        let Ok(s) = std::str::from_utf8(&b[..n]) else { return };
        kani::assume(no_lone_cr(&b[..n]));
        let p = Position { line: kani::any(), character: kani::any() };
        let got = get_insertion_index(&p, s);
        let want = spec::offset_of(&p, s);
        assert!(got == want);
    }
    #[kani::proof]
    #[kani::unwind(5)]
    fn raw_as_position_inside_and_monotone_n3() {
        let b: [u8; 3] = kani::any();
        let n: usize = kani::any();
        kani::assume(n <= 3);
        let Ok(s) = std::str::from_utf8(&b[..n]) else { return };
        let i: usize = kani::any();
        let j: usize = kani::any();
        kani::assume(i <= j);
        let pi = as_position(i, s);
        let pj = as_position(j, s);
        let end = as_position(n, s);
        assert!(pi <= pj);
        assert!(pj <= end);
    }
}

#[cfg(kani)]
mod verif_raw5 {
    use super::*;
    #[kani::proof]
    #[kani::unwind(8)]
    fn raw_roundtrip_n6() {
        let b: [u8; 6] = kani::any();
        let n: usize = kani::any();
        kani::assume(n <= 6);
        let Ok(s) = std::str::from_utf8(&b[..n]) else { return };
        let i: usize = kani::any();
        kani::assume(i <= n && s.is_char_boundary(i));
        let p = as_position(i, s);
        assert!(get_insertion_index(&p, s) == i);
    }
}
fn main(){}
