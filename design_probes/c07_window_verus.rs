use vstd::prelude::*;
use std::ops::Range;
verus! {
// ---------- R4 shims
pub fn range_is_empty(r: &Range<usize>) -> (b: bool) ensures b == !(r.start < r.end) { !(r.start < r.end) }
pub fn range_contains(r: &Range<usize>, item: &usize) -> (b: bool) ensures b == (r.start <= *item && *item < r.end) { r.start <= *item && *item < r.end }
pub fn range_len(r: &Range<usize>) -> (n: usize) ensures n == (if r.start < r.end { r.end - r.start } else { 0 }) { if r.start < r.end { r.end - r.start } else { 0 } }
pub fn usize_max(a: usize, b: usize) -> (m: usize) ensures m == (if a >= b { a } else { b }) { if a >= b { a } else { b } }
pub fn usize_min(a: usize, b: usize) -> (m: usize) ensures m == (if a <= b { a } else { b }) { if a <= b { a } else { b } }

pub struct SplError(pub Range<usize>, pub u8);
pub enum IntResult { Int(u32), Err(String) }
pub enum TokenType {
    LParen, RParen, LBracket, RBracket, LCurly, RCurly, Eq, Neq, Lt, Le, Gt, Ge, Assign, Colon, Comma, Semic,
    Plus, Minus, Times, Divide, If, Else, While, Array, Of, Proc, Ref, Type, Var,
    Ident(String), Char(char), Int(IntResult), Hex(IntResult), Comment(String), Unknown(String), Eof,
}
pub struct Token { pub token_type: TokenType, pub range: Range<usize>, pub errors: Vec<SplError> }
pub struct TokenChange { pub deletion_range: Range<usize>, pub insertion_len: usize }

// ---------- spec vocabulary
pub open spec fn needed_la(t: TokenType) -> int {
    match t {
        TokenType::If | TokenType::Else | TokenType::While | TokenType::Array | TokenType::Of | TokenType::Proc
        | TokenType::Ref | TokenType::Type | TokenType::Var | TokenType::Ident(_) | TokenType::Int(_) | TokenType::Hex(_)
        | TokenType::Char(_) | TokenType::Colon | TokenType::Lt | TokenType::Gt | TokenType::Divide | TokenType::Unknown(_) => 1,
        _ => 0,
    }
}
pub open spec fn ends_increase(ts: Seq<Token>) -> bool {
    forall|i: int, j: int| 0 <= i < j < ts.len() ==> ts[i].range.end < ts[j].range.end
}
pub open spec fn wf_change(tc: &TokenChange) -> bool {
    tc.deletion_range.start <= tc.deletion_range.end && tc.deletion_range.end + tc.insertion_len <= usize::MAX
}
pub open spec fn survives(tc: &TokenChange, i: int) -> bool { i < tc.deletion_range.start || i >= tc.deletion_range.end }
pub open spec fn new_pos(tc: &TokenChange, i: int) -> int {
    if i >= tc.deletion_range.end { i + tc.insertion_len - (tc.deletion_range.end - tc.deletion_range.start) } else { i }
}
// abstract token identity (kind, value, range and errors already shifted): truthful window over any element type
pub open spec fn truthful<T>(old: Seq<T>, new: Seq<T>, tc: &TokenChange) -> bool {
    &&& tc.deletion_range.end <= old.len()
    &&& new.len() == old.len() - (tc.deletion_range.end - tc.deletion_range.start) + tc.insertion_len
    &&& forall|i: int| 0 <= i < tc.deletion_range.start ==> new[i] == old[i]
    &&& forall|i: int| tc.deletion_range.end <= i < old.len() ==> new[new_pos(tc, i)] == old[i]
}

impl TokenType {
    const fn look_ahead(&self) -> (la: u8)
        ensures la >= needed_la(*self), la <= 1,
    {
        use TokenType::*;
        match self {
            If | Else | While | Array | Of | Proc | Ref | Type | Var | Colon | Divide | Lt | Gt
            | Int(_) | Ident(_) | Hex(_) => 1,
            LParen | RParen | LBracket | RBracket | LCurly | RCurly | Eq | Neq | Le | Ge
            | Assign | Comma | Semic | Plus | Minus | Times | Comment(_) | Eof => 0, Unknown(_) => 1,
            Char(_) => {
                1 // this is a worst case look ahead.
            }
        }
    }
}
impl Token {
    pub fn is_affected_by(&self, index: usize) -> (b: bool)
        requires self.range.end < usize::MAX,
        ensures !b ==> self.range.end + needed_la(self.token_type) <= index,
    {
        self.range.end + (self.token_type.look_ahead() as usize) > index
    }
}
pub open spec fn spec_affected(t: Token, index: int) -> bool { t.range.end + (if needed_la(t.token_type) >= 1 { 1int } else { 0int }) > index }

impl TokenChange {
    pub const fn deletes(&self, other_range: &Range<usize>) -> (b: bool)
        ensures b ==> forall|i: int| other_range.start <= i < other_range.end ==> !survives(self, i),
    {
        let this_range = &self.deletion_range;
        this_range.start <= other_range.start && other_range.end <= this_range.end
    }
    pub fn overlaps(&self, other_range: &Range<usize>) -> (b: bool)
        requires wf_change(self),
        ensures !b ==> forall|i: int| other_range.start <= i < other_range.end ==> survives(self, i),
                !b && self.deletion_range.start == self.deletion_range.end ==> !(other_range.start < self.deletion_range.start < other_range.end),
    {
        let this_range = &self.deletion_range;
        if range_is_empty(this_range) {
            if this_range.end == other_range.start {
                false
            } else {
                range_contains(other_range, &this_range.start)
            }
        } else {
            usize_max(this_range.start, other_range.start) < usize_min(this_range.end, other_range.end)
        }
    }
    pub fn out_of_range(&self, position: usize) -> (b: bool)
        requires wf_change(self),
        ensures b == (position >= self.deletion_range.start + self.insertion_len),
    {
        let first_unchanged_token =
            self.deletion_range.end + self.insertion_len - range_len(&self.deletion_range);
        position >= first_unchanged_token
    }
    pub fn new_token_pos(&self, old_token_pos: usize) -> (p: usize)
        requires wf_change(self), old_token_pos + self.insertion_len <= usize::MAX,
        ensures p == new_pos(self, old_token_pos as int),
    {
        if old_token_pos >= self.deletion_range.end {
            old_token_pos + self.insertion_len - range_len(&self.deletion_range)
        } else {
            old_token_pos
        }
    }
}

    fn is_partially_consumed(
        location_offset: usize,
        token_change: &TokenChange,
        parser_start: usize,
    ) -> (b: bool)
        requires wf_change(token_change), parser_start + token_change.insertion_len <= usize::MAX,
        ensures !b ==> (location_offset < token_change.deletion_range.start + token_change.insertion_len || location_offset <= new_pos(token_change, parser_start as int)),
    {
        if token_change.out_of_range(location_offset) {
            let new_start_pos = token_change.new_token_pos(parser_start);
            if location_offset > new_start_pos {
                return true;
            }
        }
        false
    }

    fn is_insertion_here(location_offset: usize, token_change: &TokenChange) -> (b: bool)
        requires wf_change(token_change),
        ensures b == (token_change.deletion_range.start <= location_offset < token_change.deletion_range.start + token_change.insertion_len),
    {
        let change_start = token_change.deletion_range.start;
        let insertion_range = change_start..(change_start + token_change.insertion_len);
        range_contains(&insertion_range, &location_offset)
    }

// ---------- lemmas
/// the unaffected tokens form a prefix
proof fn head_is_prefix(ts: Seq<Token>, index: int, i: int, j: int)
    requires ends_increase(ts), 0 <= i < j < ts.len(),
        // j is kept in the head by a table with look_ahead in {0,1} covering needed_la
        ts[j].range.end <= index,
    ensures ts[i].range.end + 1 <= index,
{ }

/// survivors keep their relative order and land on their own copies
proof fn survivors_ordered(tc: &TokenChange, i: int, j: int)
    requires wf_change(tc), 0 <= i < j, survives(tc, i), survives(tc, j),
    ensures new_pos(tc, i) < new_pos(tc, j),
{ }

/// an inserted position is the image of no survivor
proof fn insertion_is_not_image(tc: &TokenChange, l: int, i: int)
    requires wf_change(tc), 0 <= i, survives(tc, i),
        tc.deletion_range.start <= l < tc.deletion_range.start + tc.insertion_len,
    ensures new_pos(tc, i) != l,
{ }

/// reuse of an aligned node: its tokens and one look-ahead token are unchanged
proof fn reuse_aligned<T>(old: Seq<T>, new: Seq<T>, tc: &TokenChange, a: int, b: int, l: int, k: int)
    requires wf_change(tc), truthful(old, new, tc), 0 <= a <= b, b < old.len(),   // look-ahead token b exists
        forall|i: int| a <= i < b + 1 ==> survives(tc, i),
        tc.deletion_range.start == tc.deletion_range.end ==> !(a < tc.deletion_range.start < b + 1),
        l == new_pos(tc, a), 0 <= k <= b - a,
    ensures new[l + k] == old[a + k],
{
    assert(survives(tc, a));
    assert(survives(tc, a + k));
    if a + k < tc.deletion_range.start {
        // whole prefix unchanged; a < start so l == a
    } else {
        assert(a + k >= tc.deletion_range.end);
        // a itself cannot be before a non-empty window that lies inside [a, a+k]
        if a < tc.deletion_range.start {
            // then start in (a, a+k], and every index in [start,end) would have to survive -> window empty -> excluded by precondition
            if tc.deletion_range.start < tc.deletion_range.end {
                assert(!survives(tc, tc.deletion_range.start as int));
            }
        }
    }
}
}
fn main() {}
