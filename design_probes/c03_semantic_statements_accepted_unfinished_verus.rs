use vstd::prelude::*;
use std::ops::Range;
verus! {
pub assume_specification<'a, 'b, T, U> [<&'a mut T as std::convert::AsRef<U>>::as_ref] (_0: &'b &'a mut T) -> (r: &'b U)
            where
            T: std::convert::AsRef<U> + std::marker::PointeeSized,
            U: std::marker::PointeeSized;
pub struct AstInfo {
    pub range: Range<usize>,
    pub errors: Vec<SplError>,
}

pub struct Reference<T> {
    pub reference: T,
    pub offset: usize,
}

pub struct IntLiteral {
    pub value: Option<u32>,
    pub info: AstInfo,
}

pub struct Identifier {
    pub value: String,
    pub info: AstInfo,
}

pub struct ArrayAccess {
    pub array: Box<Variable>,
    pub index: Option<Box<Reference<Expression>>>,
    pub info: AstInfo,
}

pub enum Variable {
    NamedVariable(Identifier),
    ArrayAccess(ArrayAccess),
}

pub enum Operator {
    Add, // +
    Sub, // -
    Mul, // *
    Div, // /
    Equ, // =
    Neq, // #
    Lst, // <
    Lse, // <=
    Grt, // >
    Gre, // >=
}

pub struct BinaryExpression {
    pub operator: Operator,
    pub lhs: Box<Expression>,
    pub rhs: Box<Expression>,
    pub info: AstInfo,
}

pub struct BracketedExpression {
    pub expr: Box<Expression>,
    pub info: AstInfo,
}

pub struct UnaryExpression {
    pub operator: Operator,
    pub expr: Box<Expression>,
    pub info: AstInfo,
}

pub enum Expression {
    Binary(BinaryExpression),
    Bracketed(BracketedExpression),
    IntLiteral(IntLiteral),
    Unary(UnaryExpression),
    Variable(Variable),
    Error(AstInfo),
}

pub struct TypeDeclaration {
    pub doc: Vec<String>,
    pub name: Option<Identifier>,
    pub type_expr: Option<Reference<TypeExpression>>,
    pub info: AstInfo,
}

pub enum TypeExpression {
    NamedType(Identifier),
    ArrayType {
        size: Option<IntLiteral>,
        base_type: Option<Box<Reference<TypeExpression>>>,
        info: AstInfo,
    },
}

pub enum VariableDeclaration {
    Valid {
        doc: Vec<String>,
        name: Option<Identifier>,
        type_expr: Option<Reference<TypeExpression>>,
        info: AstInfo,
    },
    Error(AstInfo),
}

pub enum ParameterDeclaration {
    Valid {
        doc: Vec<String>,
        is_ref: bool,
        name: Option<Identifier>,
        type_expr: Option<Reference<TypeExpression>>,
        info: AstInfo,
    },
    Error(AstInfo),
}

pub struct CallStatement {
    pub name: Identifier,
    pub arguments: Vec<Reference<Expression>>,
    pub info: AstInfo,
}

pub struct Assignment {
    pub variable: Variable,
    pub expr: Option<Reference<Expression>>,
    pub info: AstInfo,
}

pub struct IfStatement {
    pub condition: Option<Reference<Expression>>,
    pub if_branch: Option<Box<Reference<Statement>>>,
    pub else_branch: Option<Box<Reference<Statement>>>,
    pub info: AstInfo,
}

pub struct WhileStatement {
    pub condition: Option<Reference<Expression>>,
    pub statement: Option<Box<Reference<Statement>>>,
    pub info: AstInfo,
}

pub struct BlockStatement {
    pub statements: Vec<Reference<Statement>>,
    pub info: AstInfo,
}

pub enum Statement {
    Empty(AstInfo),
    Assignment(Assignment),
    Call(CallStatement),
    If(IfStatement),
    While(WhileStatement),
    Block(BlockStatement),
    Error(AstInfo),
}

pub struct ProcedureDeclaration {
    pub doc: Vec<String>,
    pub name: Option<Identifier>,
    pub parameters: Vec<Reference<ParameterDeclaration>>,
    pub variable_declarations: Vec<Reference<VariableDeclaration>>,
    pub statements: Vec<Reference<Statement>>,
    pub info: AstInfo,
}

pub enum GlobalDeclaration {
    Type(TypeDeclaration),
    Procedure(ProcedureDeclaration),
    Error(AstInfo),
}

pub struct Program {
    pub global_declarations: Vec<Reference<GlobalDeclaration>>,
    pub info: AstInfo,
}
pub struct SplError(pub Range<usize>, pub ErrorMessage);
pub enum ErrorMessage { SemanticErrorMessage(SemanticErrorMessage) }
pub enum SemanticErrorMessage {
    AssignmentHasDifferentTypes,
    AssignmentRequiresIntegers,
    IfConditionMustBeBoolean,
    OperatorDifferentTypes,
    ComparisonNonInteger,
    ArithmeticOperatorNonInteger,
}
impl From<SemanticErrorMessage> for ErrorMessage {
    fn from(value: SemanticErrorMessage) -> (r: Self) ensures r == ErrorMessage::SemanticErrorMessage(value) {
        Self::SemanticErrorMessage(value)
    }
}
pub enum DataType {
    Int,
    Bool,
    Array {
        size: Option<u32>,
        base_type: Option<Box<Self>>,
        creator: String,
    },
}
pub struct LookupTable<'a> { pub x: &'a u8 }
pub trait ToRange { fn to_range(&self) -> Range<usize>; }
impl ToRange for AstInfo { fn to_range(&self) -> (r: Range<usize>) ensures r == self.range { let r = self.range.start..self.range.end; r } }
impl ToRange for BinaryExpression { fn to_range(&self) -> (r: Range<usize>) ensures r == self.info.range { self.info.to_range() } }
impl AstInfo {
    pub fn append_error(&mut self, error: SplError) ensures final(self).errors@ == old(self).errors@.push(error), final(self).range == old(self).range {
        self.errors.push(error);
    }
}
impl Operator {
    pub const fn is_arithmetic(&self) -> (b: bool) ensures b == (self is Add || self is Sub || self is Mul || self is Div) {
        matches!(self, Self::Add | Self::Sub | Self::Mul | Self::Div)
    }
}
trait AnalyzeExpression {
    fn analyze(&mut self, table: &LookupTable) -> Option<DataType>;
}
impl AnalyzeExpression for Variable {
    #[verifier::external_body]
    fn analyze(&mut self, table: &LookupTable) -> Option<DataType> { unimplemented!() }
}
impl AnalyzeExpression for Expression {
    #[verifier::exec_allows_no_decreases_clause]
    fn analyze(&mut self, table: &LookupTable) -> Option<DataType> {
        match self {
            Self::IntLiteral(_) => Some(DataType::Int),
            Self::Variable(v) => v.analyze(table),
            Self::Binary(b) => b.analyze(table),
            Self::Unary(u) => u.expr.analyze(table),
            Self::Bracketed(b) => b.expr.analyze(table),
            Self::Error(_) => None,
        }
    }
}

impl AnalyzeExpression for BinaryExpression {
    #[verifier::exec_allows_no_decreases_clause]
    fn analyze(&mut self, table: &LookupTable) -> Option<DataType> {
        let lhs_type = self.lhs.analyze(table);
        let rhs_type = self.rhs.analyze(table);

        match (lhs_type, rhs_type) {
            (Some(DataType::Int), Some(DataType::Int)) => { /* happy path */ }
            (Some(DataType::Int), Some(_)) | (Some(_), Some(DataType::Int)) => {
                self.info.append_error(SplError(
                    self.to_range(),
                    SemanticErrorMessage::OperatorDifferentTypes.into(),
                ));
            }
            (Some(_), Some(_)) => {
                if self.operator.is_arithmetic() {
                    self.info.append_error(SplError(
                        self.to_range(),
                        SemanticErrorMessage::ArithmeticOperatorNonInteger.into(),
                    ));
                } else {
                    self.info.append_error(SplError(
                        self.to_range(),
                        SemanticErrorMessage::ComparisonNonInteger.into(),
                    ));
                }
            }
            _ => {
                // At least one expression has no type information.
                // Therefore an error already occurred
                // and nothing is reported here to prevent spurious errors.
            }
        }

        // Type is always inferable from operator.
        if self.operator.is_arithmetic() {
            Some(DataType::Int)
        } else {
            // non arithmetic means comparison
            Some(DataType::Bool)
        }
    }
}

impl<T> std::ops::Deref for Reference<T> {
    type Target = T;
    fn deref(&self) -> (r: &Self::Target) ensures *r == self.reference {
        &self.reference
    }
}
impl<T> std::ops::DerefMut for Reference<T> {
    fn deref_mut(&mut self) -> &mut Self::Target {
        &mut self.reference
    }
}
impl<T> AsRef<T> for Reference<T> {
    fn as_ref(&self) -> &T {
        &self.reference
    }
}
impl ToRange for Assignment { fn to_range(&self) -> (r: Range<usize>) ensures r == self.info.range { self.info.to_range() } }
impl ToRange for Expression { #[verifier::external_body] fn to_range(&self) -> Range<usize> { unimplemented!() } }
impl PartialEq for DataType { #[verifier::external_body] fn eq(&self, other: &Self) -> (r: bool) ensures r == (*self == *other) { unimplemented!() } }
impl Expression {
    pub fn info_mut(&mut self) -> &mut AstInfo {
        match self {
            Self::Binary(b) => &mut b.info,
            Self::Bracketed(b) => &mut b.info,
            Self::Error(info) => info,
            Self::Unary(u) => &mut u.info,
            Self::IntLiteral(i) => &mut i.info,
            Self::Variable(v) => match v {
                Variable::ArrayAccess(a) => &mut a.info,
                Variable::NamedVariable(n) => &mut n.info,
            },
        }
    }
}
trait AnalyzeStatement {
    fn analyze(&mut self, table: &LookupTable);
}
impl AnalyzeStatement for Statement { #[verifier::external_body] fn analyze(&mut self, table: &LookupTable) { unimplemented!() } }
impl AnalyzeStatement for Assignment {
    fn analyze(&mut self, table: &LookupTable) {
        if let Some(expr) = &mut self.expr {
            let left = self.variable.analyze(table);
            let right = expr.analyze(table);
            // only analyze further if type information for both sides is available
            if let (Some(left), Some(right)) = (left, right) {
                if left != right {
                    self.info.append_error(SplError(
                        self.to_range(),
                        SemanticErrorMessage::AssignmentHasDifferentTypes.into(),
                    ));
                } else if !matches!(left, DataType::Int) {
                    self.info.append_error(SplError(
                        self.to_range(),
                        SemanticErrorMessage::AssignmentRequiresIntegers.into(),
                    ));
                }
            }
        }
    }
}
impl AnalyzeStatement for IfStatement {
    fn analyze(&mut self, table: &LookupTable) {
        if let Some(condition) = &mut self.condition {
            if let Some(condition_type) = condition.analyze(table) {
                if condition_type != DataType::Bool {
                    let range = condition.as_ref().to_range();
                    condition.info_mut().append_error(SplError(
                        range,
                        SemanticErrorMessage::IfConditionMustBeBoolean.into(),
                    ));
                }
            }
        }
        if let Some(stmt) = &mut self.if_branch {
            stmt.analyze(table);
        }
        if let Some(stmt) = &mut self.else_branch {
            stmt.analyze(table);
        };
    }
}
}
fn main(){}
