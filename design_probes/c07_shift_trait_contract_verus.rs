use vstd::prelude::*;
use std::ops::Range;
verus! {
pub struct SplError(pub Range<usize>, pub u8);
pub enum TokenType { Comma, Ident(String), Comment(String), Eof }
pub struct Token {
    pub token_type: TokenType,
    pub range: Range<usize>,
    pub errors: Vec<SplError>,
}

pub trait Shiftable: Sized {
    spec fn shift_spec(self, offset: usize) -> Self;
    spec fn shift_ok(self, offset: usize) -> bool;
    fn shift(self, offset: usize) -> (r: Self)
        requires self.shift_ok(offset),
        ensures r == self.shift_spec(offset);
}

impl Shiftable for Range<usize> {
    open spec fn shift_spec(self, offset: usize) -> Self { ((self.start + offset) as usize)..((self.end + offset) as usize) }
    open spec fn shift_ok(self, offset: usize) -> bool { self.start + offset <= usize::MAX && self.end + offset <= usize::MAX }
    fn shift(self, offset: usize) -> Self {
        (self.start + offset)..(self.end + offset)
    }
}

impl Shiftable for Token {
    open spec fn shift_spec(self, offset: usize) -> Self {
        Token { token_type: self.token_type, range: self.range.shift_spec(offset), errors: self.errors }
    }
    open spec fn shift_ok(self, offset: usize) -> bool { self.range.shift_ok(offset) }
    fn shift(self, offset: usize) -> Self {
        Self {
            range: self.range.shift(offset),
            ..self
        }
    }
}

fn shift_errors_loop(errors: Vec<SplError>, offset: usize) -> (r: Vec<SplError>)
    requires forall|i: int| 0 <= i < errors@.len() ==> (#[trigger] errors@[i]).0.end + offset <= usize::MAX && errors@[i].0.start <= errors@[i].0.end,
    ensures r@.len() == errors@.len(),
        forall|i: int| 0 <= i < errors@.len() ==> (#[trigger] r@[i]).0.start == errors@[i].0.start + offset && r@[i].0.end == errors@[i].0.end + offset && r@[i].1 == errors@[i].1,
{
    let mut out: Vec<SplError> = Vec::new();
    for e in it: errors
        invariant
            out@.len() == it.index@,
            it.seq() == errors@,
            forall|i: int| 0 <= i < errors@.len() ==> (#[trigger] errors@[i]).0.end + offset <= usize::MAX && errors@[i].0.start <= errors@[i].0.end,
            forall|i: int| 0 <= i < it.index@ ==> (#[trigger] out@[i]).0.start == errors@[i].0.start + offset && out@[i].0.end == errors@[i].0.end + offset && out@[i].1 == errors@[i].1,
    {
        let SplError(range, msg) = e;
        out.push(SplError((range.start + offset)..(range.end + offset), msg));
    }
    out
}
}
fn main() {}
