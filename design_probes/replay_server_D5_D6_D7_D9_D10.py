import subprocess, json, sys, time
def frame(o):
    b=json.dumps(o).encode(); return b"Content-Length: %d\r\n\r\n"%len(b)+b
def session(msgs, wait=1.0):
    p=subprocess.Popen(["LSP4SPL_BIN"],stdin=subprocess.PIPE,stdout=subprocess.PIPE,stderr=subprocess.PIPE)
    data=b"".join(frame(m) for m in msgs)
    try:
        out,err=p.communicate(data,timeout=10)
    except subprocess.TimeoutExpired:
        p.kill(); out,err=p.communicate()
    res=[]
    while out:
        h,_,rest=out.partition(b"\r\n\r\n")
        n=int(h.split(b":")[1]); res.append(json.loads(rest[:n])); out=rest[n:]
    return res,p.returncode,err[-300:]
U="file:///t.spl"
def init(diag=True):
    caps={"textDocument":{"publishDiagnostics":{}}} if diag else {}
    return [{"jsonrpc":"2.0","id":1,"method":"initialize","params":{"capabilities":caps}},{"jsonrpc":"2.0","method":"initialized","params":{}}]
def opn(t): return {"jsonrpc":"2.0","method":"textDocument/didOpen","params":{"textDocument":{"uri":U,"languageId":"spl","version":1,"text":t}}}
end=[{"jsonrpc":"2.0","id":99,"method":"shutdown"},{"jsonrpc":"2.0","method":"exit"}]
# D7/D6: semantic tokens
for text in ["type a = int;\n", "// ä\nproc main() {}\n"]:
    r,rc,err=session(init()+[opn(text),{"jsonrpc":"2.0","id":2,"method":"textDocument/semanticTokens/full","params":{"textDocument":{"uri":U}}}]+end)
    print(repr(text), [m.get("result") for m in r if m.get("id")==2], rc)
# D5: full text change dropped -> hover on new content
r,rc,err=session(init()+[opn("proc main() {}\n"),
  {"jsonrpc":"2.0","method":"textDocument/didChange","params":{"textDocument":{"uri":U,"version":2},"contentChanges":[{"text":"type main = int;\n"}]}},
  {"jsonrpc":"2.0","id":2,"method":"textDocument/foldingRange","params":{"textDocument":{"uri":U}}}]+end)
print("after full-text change to a type decl, folding ranges:", [m.get("result") for m in r if m.get("id")==2], "diags:", [ [d["message"].strip() for d in m["params"]["diagnostics"]] for m in r if m.get("method")=="textDocument/publishDiagnostics"])

print("---- C13 probes")
text = "proc main() {\n  var x: int;\n  var a: array [3] of int;\n  x := (x);\n  x := -x;\n  a[x] := 1;\n  x := 1 + x;\n}\n"
r,rc,err=session(init()+[opn(text),{"jsonrpc":"2.0","id":2,"method":"textDocument/references","params":{"textDocument":{"uri":U},"position":{"line":1,"character":6},"context":{"includeDeclaration":True}}}]+end)
for m in r:
    if m.get("id")==2:
        for loc in m["result"]: print(loc["range"])
