use vstd::prelude::*;
verus! {
pub const LPAREN: &'static str = "(";
pub const RPAREN: &'static str = ")";
pub const LBRACKET: &'static str = "[";
pub const RBRACKET: &'static str = "]";
pub const LCURLY: &'static str = "{";
pub const RCURLY: &'static str = "}";
pub const EQ: &'static str = "=";
pub const NEQ: &'static str = "#";
pub const LT: &'static str = "<";
pub const LE: &'static str = "<=";
pub const GT: &'static str = ">";
pub const GE: &'static str = ">=";
pub const ASSIGN: &'static str = ":=";
pub const COLON: &'static str = ":";
pub const COMMA: &'static str = ",";
pub const SEMIC: &'static str = ";";
pub const PLUS: &'static str = "+";
pub const MINUS: &'static str = "-";
pub const TIMES: &'static str = "*";
pub const DIVIDE: &'static str = "/";
pub const IF: &'static str = "if";
pub const ELSE: &'static str = "else";
pub const WHILE: &'static str = "while";
pub const ARRAY: &'static str = "array";
pub const OF: &'static str = "of";
pub const PROC: &'static str = "proc";
pub const REF: &'static str = "ref";
pub const TYPE: &'static str = "type";
pub const VAR: &'static str = "var";
pub enum IntResult {
    Int(u32),
    Err(String),
}
pub enum TokenType {
    LParen,
    RParen,
    LBracket,
    RBracket,
    LCurly,
    RCurly,
    Eq,
    Neq,
    Lt,
    Le,
    Gt,
    Ge,
    Assign,
    Colon,
    Comma,
    Semic,
    Plus,
    Minus,
    Times,
    Divide,
    If,
    Else,
    While,
    Array,
    Of,
    Proc,
    Ref,
    Type,
    Var,
    Ident(String),
    Char(char),
    Int(IntResult),
    Hex(IntResult),
    Comment(String),
    Unknown(String),
    Eof,
}
pub enum Operator {
    Add, // +
    Sub, // -
    Mul, // *
    Div, // /
    Equ, // =
    Neq, // #
    Lst, // <
    Lse, // <=
    Grt, // >
    Gre, // >=
}
pub struct OperatorConversionError<T> { item: T }
impl<T> OperatorConversionError<T> {
    pub const fn new(item: T) -> Self {
        Self { item }
    }
}
pub open spec fn lexeme(t: TokenType) -> Option<Seq<char>> {
    match t {
        TokenType::LParen => Some(seq!['(']), TokenType::RParen => Some(seq![')']), TokenType::LBracket => Some(seq!['[']), TokenType::RBracket => Some(seq![']']),
        TokenType::LCurly => Some(seq!['{']), TokenType::RCurly => Some(seq!['}']), TokenType::Eq => Some(seq!['=']), TokenType::Neq => Some(seq!['#']),
        TokenType::Lt => Some(seq!['<']), TokenType::Le => Some(seq!['<','=']), TokenType::Gt => Some(seq!['>']), TokenType::Ge => Some(seq!['>','=']),
        TokenType::Assign => Some(seq![':','=']), TokenType::Colon => Some(seq![':']), TokenType::Comma => Some(seq![',']), TokenType::Semic => Some(seq![';']),
        TokenType::Plus => Some(seq!['+']), TokenType::Minus => Some(seq!['-']), TokenType::Times => Some(seq!['*']), TokenType::Divide => Some(seq!['/']),
        TokenType::If => Some(seq!['i','f']), TokenType::Else => Some(seq!['e','l','s','e']), TokenType::While => Some(seq!['w','h','i','l','e']),
        TokenType::Array => Some(seq!['a','r','r','a','y']), TokenType::Of => Some(seq!['o','f']), TokenType::Proc => Some(seq!['p','r','o','c']),
        TokenType::Ref => Some(seq!['r','e','f']), TokenType::Type => Some(seq!['t','y','p','e']), TokenType::Var => Some(seq!['v','a','r']),
        TokenType::Eof => Some(Seq::empty()),
        _ => None,
    }
}
impl TokenType {
pub const fn as_static_str(&self) -> (r: Option<&'static str>)
        ensures (r is Some) == (lexeme(*self) is Some), r is Some ==> r->0@ == lexeme(*self)->0,
    {
        proof {
            reveal_strlit("("); reveal_strlit(")"); reveal_strlit("["); reveal_strlit("]"); reveal_strlit("{"); reveal_strlit("}");
            reveal_strlit("="); reveal_strlit("#"); reveal_strlit("<"); reveal_strlit("<="); reveal_strlit(">"); reveal_strlit(">=");
            reveal_strlit(":="); reveal_strlit(":"); reveal_strlit(","); reveal_strlit(";"); reveal_strlit("+"); reveal_strlit("-");
            reveal_strlit("*"); reveal_strlit("/"); reveal_strlit("if"); reveal_strlit("else"); reveal_strlit("while"); reveal_strlit("array");
            reveal_strlit("of"); reveal_strlit("proc"); reveal_strlit("ref"); reveal_strlit("type"); reveal_strlit("var"); reveal_strlit("");
        }
        use TokenType::*;
        match self {
            LParen => Some(LPAREN),
            RParen => Some(RPAREN),
            LBracket => Some(LBRACKET),
            RBracket => Some(RBRACKET),
            LCurly => Some(LCURLY),
            RCurly => Some(RCURLY),
            Eq => Some(EQ),
            Neq => Some(NEQ),
            Lt => Some(LT),
            Le => Some(LE),
            Gt => Some(GT),
            Ge => Some(GE),
            Assign => Some(ASSIGN),
            Colon => Some(COLON),
            Comma => Some(COMMA),
            Semic => Some(SEMIC),
            Plus => Some(PLUS),
            Minus => Some(MINUS),
            Times => Some(TIMES),
            Divide => Some(DIVIDE),
            If => Some(IF),
            Else => Some(ELSE),
            While => Some(WHILE),
            Array => Some(ARRAY),
            Of => Some(OF),
            Proc => Some(PROC),
            Ref => Some(REF),
            Type => Some(TYPE),
            Var => Some(VAR),
            Eof => Some(""),
            _ => None,
        }
    }
}
pub open spec fn op_of(t: TokenType) -> Option<Operator> {
    match t {
        TokenType::Plus => Some(Operator::Add), TokenType::Minus => Some(Operator::Sub), TokenType::Times => Some(Operator::Mul), TokenType::Divide => Some(Operator::Div),
        TokenType::Eq => Some(Operator::Equ), TokenType::Neq => Some(Operator::Neq), TokenType::Lt => Some(Operator::Lst), TokenType::Le => Some(Operator::Lse),
        TokenType::Gt => Some(Operator::Grt), TokenType::Ge => Some(Operator::Gre), _ => None,
    }
}
impl TryFrom<TokenType> for Operator {
    type Error = OperatorConversionError<TokenType>;
    fn try_from(value: TokenType) -> (r: Result<Self, Self::Error>)
        ensures (r is Ok) == (op_of(value) is Some), r is Ok ==> r->Ok_0 == op_of(value)->0,
    {
        use TokenType::*;
        match value {
            Plus => Ok(Self::Add),
            Minus => Ok(Self::Sub),
            Times => Ok(Self::Mul),
            Divide => Ok(Self::Div),
            Eq => Ok(Self::Equ),
            Neq => Ok(Self::Neq),
            Lt => Ok(Self::Lst),
            Le => Ok(Self::Lse),
            Gt => Ok(Self::Grt),
            Ge => Ok(Self::Gre),
            token => Err(OperatorConversionError::new(token)),
        }
    }
}
}
fn main(){}
