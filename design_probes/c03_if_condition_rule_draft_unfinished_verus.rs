use vstd::prelude::*;
use std::ops::Range;
verus! {
pub struct AstInfo {
    pub range: Range<usize>,
    pub errors: Vec<SplError>,
}

pub struct Reference<T> {
    pub reference: T,
    pub offset: usize,
}

pub struct IntLiteral {
    pub value: Option<u32>,
    pub info: AstInfo,
}

pub struct Identifier {
    pub value: String,
    pub info: AstInfo,
}

pub struct ArrayAccess {
    pub array: Box<Variable>,
    pub index: Option<Box<Reference<Expression>>>,
    pub info: AstInfo,
}

pub enum Variable {
    NamedVariable(Identifier),
    ArrayAccess(ArrayAccess),
}

pub enum Operator {
    Add, // +
    Sub, // -
    Mul, // *
    Div, // /
    Equ, // =
    Neq, // #
    Lst, // <
    Lse, // <=
    Grt, // >
    Gre, // >=
}

pub struct BinaryExpression {
    pub operator: Operator,
    pub lhs: Box<Expression>,
    pub rhs: Box<Expression>,
    pub info: AstInfo,
}

pub struct BracketedExpression {
    pub expr: Box<Expression>,
    pub info: AstInfo,
}

pub struct UnaryExpression {
    pub operator: Operator,
    pub expr: Box<Expression>,
    pub info: AstInfo,
}

pub enum Expression {
    Binary(BinaryExpression),
    Bracketed(BracketedExpression),
    IntLiteral(IntLiteral),
    Unary(UnaryExpression),
    Variable(Variable),
    Error(AstInfo),
}

pub struct TypeDeclaration {
    pub doc: Vec<String>,
    pub name: Option<Identifier>,
    pub type_expr: Option<Reference<TypeExpression>>,
    pub info: AstInfo,
}

pub enum TypeExpression {
    NamedType(Identifier),
    ArrayType {
        size: Option<IntLiteral>,
        base_type: Option<Box<Reference<TypeExpression>>>,
        info: AstInfo,
    },
}

pub enum VariableDeclaration {
    Valid {
        doc: Vec<String>,
        name: Option<Identifier>,
        type_expr: Option<Reference<TypeExpression>>,
        info: AstInfo,
    },
    Error(AstInfo),
}

pub enum ParameterDeclaration {
    Valid {
        doc: Vec<String>,
        is_ref: bool,
        name: Option<Identifier>,
        type_expr: Option<Reference<TypeExpression>>,
        info: AstInfo,
    },
    Error(AstInfo),
}

pub struct CallStatement {
    pub name: Identifier,
    pub arguments: Vec<Reference<Expression>>,
    pub info: AstInfo,
}

pub struct Assignment {
    pub variable: Variable,
    pub expr: Option<Reference<Expression>>,
    pub info: AstInfo,
}

pub struct IfStatement {
    pub condition: Option<Reference<Expression>>,
    pub if_branch: Option<Box<Reference<Statement>>>,
    pub else_branch: Option<Box<Reference<Statement>>>,
    pub info: AstInfo,
}

pub struct WhileStatement {
    pub condition: Option<Reference<Expression>>,
    pub statement: Option<Box<Reference<Statement>>>,
    pub info: AstInfo,
}

pub struct BlockStatement {
    pub statements: Vec<Reference<Statement>>,
    pub info: AstInfo,
}

pub enum Statement {
    Empty(AstInfo),
    Assignment(Assignment),
    Call(CallStatement),
    If(IfStatement),
    While(WhileStatement),
    Block(BlockStatement),
    Error(AstInfo),
}

pub struct ProcedureDeclaration {
    pub doc: Vec<String>,
    pub name: Option<Identifier>,
    pub parameters: Vec<Reference<ParameterDeclaration>>,
    pub variable_declarations: Vec<Reference<VariableDeclaration>>,
    pub statements: Vec<Reference<Statement>>,
    pub info: AstInfo,
}

pub enum GlobalDeclaration {
    Type(TypeDeclaration),
    Procedure(ProcedureDeclaration),
    Error(AstInfo),
}

pub struct Program {
    pub global_declarations: Vec<Reference<GlobalDeclaration>>,
    pub info: AstInfo,
}
pub assume_specification<Idx: Clone> [<Range<Idx> as Clone>::clone] (r: &Range<Idx>) -> (c: Range<Idx>)
    ensures cloned(r.start, c.start), cloned(r.end, c.end);
pub struct SplError(pub Range<usize>, pub ErrorMessage);
pub enum ErrorMessage { SemanticErrorMessage(SemanticErrorMessage) }
pub enum SemanticErrorMessage {
    AssignmentHasDifferentTypes,
    AssignmentRequiresIntegers,
    IfConditionMustBeBoolean,
    OperatorDifferentTypes,
    ComparisonNonInteger,
    ArithmeticOperatorNonInteger,
}
impl vstd::std_specs::convert::FromSpecImpl<SemanticErrorMessage> for ErrorMessage {
    open spec fn obeys_from_spec() -> bool { true }
    open spec fn from_spec(v: SemanticErrorMessage) -> ErrorMessage { ErrorMessage::SemanticErrorMessage(v) }
}
impl From<SemanticErrorMessage> for ErrorMessage {
    fn from(value: SemanticErrorMessage) -> Self {
        Self::SemanticErrorMessage(value)
    }
}
pub enum DataType {
    Int,
    Bool,
    Array {
        size: Option<u32>,
        base_type: Option<Box<Self>>,
        creator: String,
    },
}
impl PartialEq for DataType { #[verifier::external_body] fn eq(&self, other: &Self) -> (r: bool) ensures r == (*self == *other) { unimplemented!() } }
pub struct LookupTable<'a> { pub x: &'a u8 }
pub trait ToRange { spec fn range_spec(&self) -> Range<usize>; fn to_range(&self) -> (r: Range<usize>) ensures r == self.range_spec(); }
impl ToRange for AstInfo { open spec fn range_spec(&self) -> Range<usize> { self.range } fn to_range(&self) -> (r: Range<usize>) { self.range.clone() } }
impl ToRange for BinaryExpression { open spec fn range_spec(&self) -> Range<usize> { self.info.range } fn to_range(&self) -> (r: Range<usize>) { self.info.to_range() } }
impl AstInfo {
    pub fn append_error(&mut self, error: SplError)
        ensures final(self).errors@ == old(self).errors@.push(error), final(self).range == old(self).range
    {
        self.errors.push(error);
    }
}
impl Operator {
    pub const fn is_arithmetic(&self) -> (b: bool) ensures b == arith(*self) {
        matches!(self, Self::Add | Self::Sub | Self::Mul | Self::Div)
    }
}

// ---------------- specification, from the SPL typing rules
pub open spec fn arith(op: Operator) -> bool { op is Add || op is Sub || op is Mul || op is Div }
pub uninterp spec fn var_type(v: Variable, table: LookupTable) -> Option<DataType>;
pub uninterp spec fn var_post(o: Variable, n: Variable, table: LookupTable) -> bool;

pub open spec fn expr_type(e: Expression, table: LookupTable) -> Option<DataType> decreases e {
    match e {
        Expression::IntLiteral(_) => Some(DataType::Int),
        Expression::Variable(v) => var_type(v, table),
        Expression::Binary(b) => Some(if arith(b.operator) { DataType::Int } else { DataType::Bool }),
        Expression::Unary(u) => expr_type(*u.expr, table),
        Expression::Bracketed(b) => expr_type(*b.expr, table),
        Expression::Error(_) => None,
    }
}
/// the diagnostic the operator rule prescribes for operand types (lt, rt): none if an operand has no type
/// (it already failed) or both are int; otherwise one diagnostic on the operator node
pub open spec fn op_rule(lt: Option<DataType>, rt: Option<DataType>, op: Operator, range: Range<usize>) -> Seq<SplError> {
    if lt is None || rt is None { Seq::empty() }
    else if lt->0 is Int && rt->0 is Int { Seq::empty() }
    else if lt->0 is Int || rt->0 is Int { seq![SplError(range, ErrorMessage::SemanticErrorMessage(SemanticErrorMessage::OperatorDifferentTypes))] }
    else if arith(op) { seq![SplError(range, ErrorMessage::SemanticErrorMessage(SemanticErrorMessage::ArithmeticOperatorNonInteger))] }
    else { seq![SplError(range, ErrorMessage::SemanticErrorMessage(SemanticErrorMessage::ComparisonNonInteger))] }
}
pub open spec fn expr_post(o: Expression, n: Expression, table: LookupTable) -> bool decreases o {
    match (o, n) {
        (Expression::IntLiteral(a), Expression::IntLiteral(b)) => a == b,
        (Expression::Variable(a), Expression::Variable(b)) => var_post(a, b, table),
        (Expression::Binary(a), Expression::Binary(b)) => bin_post(a, b, table),
        (Expression::Unary(a), Expression::Unary(b)) => a.operator == b.operator && a.info == b.info && expr_post(*a.expr, *b.expr, table),
        (Expression::Bracketed(a), Expression::Bracketed(b)) => a.info == b.info && expr_post(*a.expr, *b.expr, table),
        (Expression::Error(a), Expression::Error(b)) => a == b,
        _ => false,
    }
}
pub open spec fn bin_post(a: BinaryExpression, b: BinaryExpression, table: LookupTable) -> bool decreases a {
    &&& a.operator == b.operator
    &&& expr_post(*a.lhs, *b.lhs, table)
    &&& expr_post(*a.rhs, *b.rhs, table)
    &&& b.info.range == a.info.range
    &&& b.info.errors@ == a.info.errors@ + op_rule(expr_type(*a.lhs, table), expr_type(*a.rhs, table), a.operator, a.info.range)
}

pub trait AnalyzeExpression: Sized {
    spec fn typ(&self, table: LookupTable) -> Option<DataType>;
    spec fn post(o: Self, n: Self, table: LookupTable) -> bool;
    fn analyze(&mut self, table: &LookupTable) -> (t: Option<DataType>)
        ensures Self::post(*old(self), *final(self), *table), t == old(self).typ(*table);
}
impl AnalyzeExpression for Variable {
    open spec fn typ(&self, table: LookupTable) -> Option<DataType> { var_type(*self, table) }
    open spec fn post(o: Self, n: Self, table: LookupTable) -> bool { var_post(o, n, table) }
    #[verifier::external_body]
    fn analyze(&mut self, table: &LookupTable) -> Option<DataType> { unimplemented!() }
}
impl AnalyzeExpression for Expression {
    open spec fn typ(&self, table: LookupTable) -> Option<DataType> { expr_type(*self, table) }
    open spec fn post(o: Self, n: Self, table: LookupTable) -> bool { expr_post(o, n, table) }
    #[verifier::exec_allows_no_decreases_clause]
    fn analyze(&mut self, table: &LookupTable) -> Option<DataType> {
        match self {
            Self::IntLiteral(_) => Some(DataType::Int),
            Self::Variable(v) => v.analyze(table),
            Self::Binary(b) => b.analyze(table),
            Self::Unary(u) => u.expr.analyze(table),
            Self::Bracketed(b) => b.expr.analyze(table),
            Self::Error(_) => None,
        }
    }
}

impl AnalyzeExpression for BinaryExpression {
    open spec fn typ(&self, table: LookupTable) -> Option<DataType> { Some(if arith(self.operator) { DataType::Int } else { DataType::Bool }) }
    open spec fn post(o: Self, n: Self, table: LookupTable) -> bool { bin_post(o, n, table) }
    #[verifier::exec_allows_no_decreases_clause]
    fn analyze(&mut self, table: &LookupTable) -> Option<DataType> {
        let lhs_type = self.lhs.analyze(table);
        let rhs_type = self.rhs.analyze(table);

        match (lhs_type, rhs_type) {
            (Some(DataType::Int), Some(DataType::Int)) => { /* happy path */ }
            (Some(DataType::Int), Some(_)) | (Some(_), Some(DataType::Int)) => {
                self.info.append_error(SplError(
                    self.to_range(),
                    SemanticErrorMessage::OperatorDifferentTypes.into(),
                ));
            }
            (Some(_), Some(_)) => {
                if self.operator.is_arithmetic() {
                    self.info.append_error(SplError(
                        self.to_range(),
                        SemanticErrorMessage::ArithmeticOperatorNonInteger.into(),
                    ));
                } else {
                    self.info.append_error(SplError(
                        self.to_range(),
                        SemanticErrorMessage::ComparisonNonInteger.into(),
                    ));
                }
            }
            _ => {
                // At least one expression has no type information.
                // Therefore an error already occurred
                // and nothing is reported here to prevent spurious errors.
            }
        }

        proof {
            let o = *old(self);
            let errs = op_rule(expr_type(*o.lhs, *table), expr_type(*o.rhs, *table), o.operator, o.info.range);
            assert(lhs_type == expr_type(*o.lhs, *table));
            assert(rhs_type == expr_type(*o.rhs, *table));
            if errs.len() == 1 {
                assert(o.info.errors@.push(errs[0]) =~= o.info.errors@ + errs);
            } else {
                assert(o.info.errors@ =~= o.info.errors@ + errs);
            }
        }
        // Type is always inferable from operator.
        if self.operator.is_arithmetic() {
            Some(DataType::Int)
        } else {
            // non arithmetic means comparison
            Some(DataType::Bool)
        }
    }
}

impl<T> std::ops::Deref for Reference<T> {
    type Target = T;
    fn deref(&self) -> (r: &Self::Target) ensures *r == self.reference {
        &self.reference
    }
}
impl<T> std::ops::DerefMut for Reference<T> {
    fn deref_mut(&mut self) -> (r: &mut Self::Target)
        ensures *r == old(self).reference, final(self).offset == old(self).offset, final(self).reference == *final(r)
    {
        &mut self.reference
    }
}
impl<T> AsRef<T> for Reference<T> {
    fn as_ref(&self) -> (r: &T) ensures *r == self.reference {
        &self.reference
    }
}
impl ToRange for Expression { open spec fn range_spec(&self) -> Range<usize> { info_of(*self).range } #[verifier::external_body] fn to_range(&self) -> (r: Range<usize>) { unimplemented!() } }
pub uninterp spec fn expr_range(e: Expression) -> Range<usize>;

pub open spec fn info_of(e: Expression) -> AstInfo {
    match e {
        Expression::Binary(b) => b.info,
        Expression::Bracketed(b) => b.info,
        Expression::Error(info) => info,
        Expression::Unary(u) => u.info,
        Expression::IntLiteral(i) => i.info,
        Expression::Variable(v) => match v { Variable::ArrayAccess(a) => a.info, Variable::NamedVariable(n) => n.info },
    }
}
pub open spec fn with_info(e: Expression, i: AstInfo) -> Expression {
    match e {
        Expression::Binary(b) => Expression::Binary(BinaryExpression { info: i, ..b }),
        Expression::Bracketed(b) => Expression::Bracketed(BracketedExpression { info: i, ..b }),
        Expression::Error(_) => Expression::Error(i),
        Expression::Unary(u) => Expression::Unary(UnaryExpression { info: i, ..u }),
        Expression::IntLiteral(l) => Expression::IntLiteral(IntLiteral { info: i, ..l }),
        Expression::Variable(v) => Expression::Variable(match v {
            Variable::ArrayAccess(a) => Variable::ArrayAccess(ArrayAccess { info: i, ..a }),
            Variable::NamedVariable(n) => Variable::NamedVariable(Identifier { info: i, ..n }) }),
    }
}
impl Expression {
    pub fn info_mut(&mut self) -> (r: &mut AstInfo)
        ensures *r == info_of(*old(self)), *final(self) == with_info(*old(self), *final(r))
    {
        match self {
            Self::Binary(b) => &mut b.info,
            Self::Bracketed(b) => &mut b.info,
            Self::Error(info) => info,
            Self::Unary(u) => &mut u.info,
            Self::IntLiteral(i) => &mut i.info,
            Self::Variable(v) => match v {
                Variable::ArrayAccess(a) => &mut a.info,
                Variable::NamedVariable(n) => &mut n.info,
            },
        }
    }
}
pub uninterp spec fn stmt_post(o: Statement, n: Statement, table: LookupTable) -> bool;
pub trait AnalyzeStatement: Sized {
    spec fn spost(o: Self, n: Self, table: LookupTable) -> bool;
    fn analyze(&mut self, table: &LookupTable) ensures Self::spost(*old(self), *final(self), *table);
}
impl AnalyzeStatement for Statement {
    open spec fn spost(o: Self, n: Self, table: LookupTable) -> bool { stmt_post(o, n, table) }
    #[verifier::external_body] fn analyze(&mut self, table: &LookupTable) { unimplemented!() }
}
pub open spec fn cond_rule(t: Option<DataType>, range: Range<usize>, msg: SemanticErrorMessage) -> Seq<SplError> {
    if t is Some && !(t->0 is Bool) { seq![SplError(range, ErrorMessage::SemanticErrorMessage(msg))] } else { Seq::empty() }
}
/// n is m with `extra` appended to the errors of its top node, nothing else changed
pub open spec fn top_errors_extended(m: Expression, n: Expression, extra: Seq<SplError>) -> bool {
    with_info(n, info_of(m)) == m && info_of(n).range == info_of(m).range && info_of(n).errors@ == info_of(m).errors@ + extra
}
pub open spec fn cond_post(o: Expression, n: Expression, table: LookupTable, msg: SemanticErrorMessage) -> bool {
    exists|m: Expression| expr_post(o, m, table) && #[trigger] top_errors_extended(m, n, cond_rule(expr_type(o, table), info_of(m).range, msg))
}
pub open spec fn branch_post(a: Option<Box<Reference<Statement>>>, b: Option<Box<Reference<Statement>>>, table: LookupTable) -> bool {
    match (a, b) { (Some(x), Some(y)) => x.offset == y.offset && stmt_post(x.reference, y.reference, table), (None, None) => true, _ => false }
}
pub open spec fn if_post(a: IfStatement, b: IfStatement, table: LookupTable) -> bool {
    &&& a.info == b.info
    &&& match (a.condition, b.condition) {
            (Some(ca), Some(cb)) => ca.offset == cb.offset && cond_post(ca.reference, cb.reference, table, SemanticErrorMessage::IfConditionMustBeBoolean),
            (None, None) => true, _ => false }
    &&& branch_post(a.if_branch, b.if_branch, table)
    &&& branch_post(a.else_branch, b.else_branch, table)
}
impl ToRange for Assignment { open spec fn range_spec(&self) -> Range<usize> { self.info.range } fn to_range(&self) -> (r: Range<usize>) { self.info.to_range() } }
pub open spec fn asg_rule(lt: Option<DataType>, rt: Option<DataType>, range: Range<usize>) -> Seq<SplError> {
    if lt is None || rt is None { Seq::empty() }
    else if lt->0 != rt->0 { seq![SplError(range, ErrorMessage::SemanticErrorMessage(SemanticErrorMessage::AssignmentHasDifferentTypes))] }
    else if !(lt->0 is Int) { seq![SplError(range, ErrorMessage::SemanticErrorMessage(SemanticErrorMessage::AssignmentRequiresIntegers))] }
    else { Seq::empty() }
}
pub open spec fn asg_post(a: Assignment, b: Assignment, table: LookupTable) -> bool {
    &&& b.info.range == a.info.range
    &&& match (a.expr, b.expr) {
        (Some(ea), Some(eb)) => ea.offset == eb.offset && expr_post(ea.reference, eb.reference, table) && var_post(a.variable, b.variable, table)
            && b.info.errors@ == a.info.errors@ + asg_rule(var_type(a.variable, table), expr_type(ea.reference, table), a.info.range),
        (None, None) => a.variable == b.variable && b.info.errors@ == a.info.errors@,
        _ => false,
    }
}
impl AnalyzeStatement for Assignment {
    open spec fn spost(o: Self, n: Self, table: LookupTable) -> bool { asg_post(o, n, table) }
    fn analyze(&mut self, table: &LookupTable)
    {
        if let Some(expr) = &mut self.expr {
            let left = self.variable.analyze(table);
            let right = expr.analyze(table);
            // only analyze further if type information for both sides is available
            if let (Some(left), Some(right)) = (left, right) {
                if left != right {
                    self.info.append_error(SplError(
                        self.to_range(),
                        SemanticErrorMessage::AssignmentHasDifferentTypes.into(),
                    ));
                } else if !matches!(left, DataType::Int) {
                    self.info.append_error(SplError(
                        self.to_range(),
                        SemanticErrorMessage::AssignmentRequiresIntegers.into(),
                    ));
                }
            }
        }
        proof {
            let o = *old(self);
            if o.expr is Some {
                let errs = asg_rule(var_type(o.variable, *table), expr_type(o.expr->0.reference, *table), o.info.range);
                if errs.len() == 1 {
                    assert(o.info.errors@.push(errs[0]) =~= o.info.errors@ + errs);
                } else {
                    assert(o.info.errors@ =~= o.info.errors@ + errs);
                }
            } else {
                assert(o.info.errors@ =~= o.info.errors@);
            }
        }
    }
}
impl AnalyzeStatement for IfStatement {
    open spec fn spost(o: Self, n: Self, table: LookupTable) -> bool { if_post(o, n, table) }
    fn analyze(&mut self, table: &LookupTable) {
        if let Some(condition) = &mut self.condition {
            if let Some(condition_type) = condition.analyze(table) {
                if condition_type != DataType::Bool {
                    let range = Reference::as_ref(&*condition).to_range();
                    condition.info_mut().append_error(SplError(
                        range,
                        SemanticErrorMessage::IfConditionMustBeBoolean.into(),
                    ));
                }
            }
        }
        if let Some(stmt) = &mut self.if_branch {
            stmt.analyze(table);
        }
        if let Some(stmt) = &mut self.else_branch {
            stmt.analyze(table);
        };
    }
}
}
fn main(){}
