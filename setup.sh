#!/bin/sh
# Build everything the checks need from files on disk (offline). Pre-builds the Kani harness crates' dependencies.
set -e
cd "$(dirname "$0")"
export CARGO_NET_OFFLINE=true
mkdir -p build/gen evidence replay
python3 tools/prebuild.py
